#!/usr/bin/env python3
"""Writes /verif/seeded/<id>/meta.json from the table below and the confirm.log of each seed."""
import json
import os
import re

VERIF = os.path.dirname(os.path.dirname(os.path.abspath(__file__)))

T = {
    "C01-A": ("C01", "evidence-reduced factors stored under the inherited tag: value-identical reduced factors collapse in the working-factor set", "non-greedy elimination order + hard evidence + two factors that are bit-identical after conditioning (identical sensor CPDs observed in the same state)", ["C01", "C03"], False),
    "C02-A": ("C02", "query() reuses beliefs left by max_calibrate() as sum-marginals", "one engine: max_calibrate() then query()", ["C02"], False),
    "C02-B": ("C02", "triangulate uses neighbours in the original graph, so fill-in edges never cascade", "a chordless cycle of length >= 5 in the moral / interaction graph (some deletion orders for 5-6, all for >= 7)", ["C02", "C14"], True),
    "C03-A": ("C03", "same slip as C01-A reached through map_query / predict", "two observed nodes with identical reduced likelihood tables", ["C03", "C01"], False),
    "C03-B": ("C03", "pruned-network cache keyed on (query variables, evidence names) survives virtual-evidence re-initialisation", "one VE engine: virtual evidence on X, then the same question shape with another likelihood on X", ["C16"], False),
    "C04-A": ("C04", "sum(): cardinalities of new variables collected in the right operand's order, variables appended in set order", "right operand brings >= 2 new variables with different cardinalities and set order != listing order (hash-seed dependent)", ["C04"], False),
    "C04-B": ("C04", "divide(): divisor copied only when it needs extension, so axis alignment mutates the caller's divisor", "divisor with exactly the dividend's scope in another axis order and unequal cardinalities", ["C04"], False),
    "C06-A": ("C06", "MLE CPD labelled with sorted pandas levels instead of the declared state names", "MLE on a node with >= 1 parent whose declared state names are not sorted", ["C06"], False),
    "C06-B": ("C06", "EM batch loop bound off by one: first row of every non-final batch weighted twice", "more distinct observed rows than batch_size", ["C06"], False),
    "C07-A": ("C07", "reduce-map cache keyed by node only while forward sampling and likelihood weighting pass parents in opposite orders", "one sampler object used for forward/rejection and likelihood weighting on a node with >= 2 parents", ["C07"], False),
    "C07-B": ("C07", "normalisation error added to the last element instead of the arg-max", "root distribution summing to slightly less than one whose last state has probability 0", ["C07"], False),
    "C09-A": ("C09", "unanchored (table|default) detection in BIF probability blocks", "a conditional block whose child / last parent / last parent state name ends in 'table' or 'default'", ["C09"], False),
    "C09-B": ("C09", "UAI writer: numeric sort of cardinalities in the preamble, string sort in the Markov function scopes", "Markov network with a cardinality >= 10 next to a smaller one with a larger leading digit", ["C09"], False),
    "C10-A": ("C10", "state_counts(reindex=False) fast path encodes parent configurations with stride updated too early", ">= 2 parents of different cardinality, the larger listed first, both colliding configurations observed", ["C10"], True),
    "C10-B": ("C10", "BDeu/BDs store int(equivalent_sample_size)", "a non-integer equivalent sample size", ["C10"], False),
    "C11-A": ("C11", "max_indegree test moved ahead of the cycle checks; flip branch uses > instead of >=", "finite max_indegree k and a best move that reverses X->Y while X already has k parents", ["C11"], False),
    "C11-B": ("C11", "Chow-Liu weight memo per estimator, not keyed on edge_weights_fn", "one TreeSearch object, two estimate() calls with different edge_weights_fn whose maximum spanning trees differ", ["C11"], False),
    "C12-A": ("C12", "orientation loop's progress flag not set by rule 2", "a chain of >= 2 compelled edges below a collider with the collider visited before both parents", ["C12"], False),
    "C12-B": ("C12", "PDAG.to_dag sink test requires every pair of predecessors (incl. two parents) to be adjacent", "non-CPDAG PDAG whose sink has two non-adjacent parents plus an undirected neighbour", ["C12"], True),
    "C13-A": ("C13", "user-supplied adjustment sets pruned to ancestors of the query variables", "explicit adjustment set with a blocking node that is not an ancestor of the outcome", ["C13"], False),
    "C13-B": ("C13", "non-inplace do() reuses the CPD objects of non-intervened nodes", "a later in-place intervention on either network", ["C13"], False),
    "C14-A": ("C14", "clique potential = product of assigned factors padded with a unit factor without state names", "non-default state names and a clique variable covered by none of the clique's assigned factors", ["C14", "C02"], False),
    "C14-B": ("C14", "FactorGraph.to_markov_model takes get_factors(node), i.e. the first factor with that scope", "two different factors over the same variable set", ["C14", "C02"], False),
    "C15-A": ("C15", "JunctionTree.add_edge cycle test replaced by an edge-count shortcut", "tree still a disconnected forest (cliques added first) and an edge inside one component", ["C15"], True),
    "C15-B": ("C15", "get_random_cpds adds each CPD inside the loop", "inplace=True with an n_states dict whose value for a later node is unusable: the call raises after earlier CPDs were replaced", ["C15"], False),
    "C16-B": ("C16", "lru_cache on the pruned network keyed by engine identity, query variables and observed variable set", "one VE engine, two virtual-evidence queries of the same shape with different likelihoods", ["C16"], False),
    "C17-A": ("C17", "forward_inference adds carried-over interface evidence after the per-slice query", "forward_inference, query variable in slice t >= 1, evidence on an interface node of slice t-1", ["C17"], True),
    "C01-C": ("C01", "DiscreteFactor.normalize() leaves totals that are np.isclose to 0 un-normalised", "evidence probability below 1e-8 or virtual-evidence likelihoods on a tiny scale", ["C01"], False),
    "C01-D": ("C01", "pruned-network cache keyed on the set of nodes named in the question, not on their roles", "one VE engine: a question, then the same node set with a query variable and an evidence variable swapped, where pruning differs", ["C16"], False),
    "C15-C": ("C15", "DynamicBayesianNetwork.add_edge checks for a cycle before the edge is folded onto slices 0/1", "an edge named in slices >= 2 that closes a cycle in the template", ["C15"], False),
    "C15-D": ("C15", "non-inplace do() shares the CPD objects of the untouched nodes with the original", "a later in-place change of one network's CPD", ["C15", "C13"], False),
    "C16-C": ("C16", "query() merges virtual-evidence entries into the caller's evidence dict", "hard evidence dict and virtual evidence in the same call", ["C16"], True),
    "C06-C": ("C06", "zero parent-configuration counts detected with np.isclose instead of == 0", "weighted data whose total weight in a parent configuration is below 1e-8", ["C06"], False),
    "C06-D": ("C06", "scalar Dirichlet pseudo-count truncated to int", "prior_type='dirichlet' with a non-integer scalar pseudo_counts", ["C06"], False),
    "C09-C": ("C09", "NET writer lists parents in graph order while the table is laid out in the CPD's evidence order", "a node whose CPD evidence order differs from the graph's parent order, with unequal tables", ["C09"], False),
    "C09-D": ("C09", "UAI reader iterates a single-entry table token as characters", "a UAI function table with exactly one entry of more than one character", ["C09"], False),
    "C02-C": ("C02", "BeliefPropagation.query rebuilds the clique tree from the pruned (often disconnected) network", "a Bayesian-network query whose variables and evidence split the pruned network into several components", ["C02"], False),
    "C02-D": ("C02", "to_junction_tree links only consecutive cliques per variable before the spanning tree", ">= 4 maximal cliques around a hub clique and a particular clique listing order (insertion order / hash seed)", ["C02", "C14"], False),
    "C03-C": ("C03", "BP skips re-calibration when clique beliefs exist", "one engine: max_calibrate() and then map_query on a strict part of the tree", ["C03", "C02"], False),
    "C03-D": ("C03", "predict() asks one MAP query per missing column (marginal modes instead of the joint MAP)", "predict with >= 2 dependent missing columns", ["C03"], False),
    "C04-C": ("C04", "factor_sum_product skips factors with an empty scope", "a factor list containing a fully eliminated factor whose value is not 1", ["C04"], False),
    "C04-D": ("C04", "marginalize(inplace=False) shares the value buffer when nothing is summed out", "marginalize([]) out of place, later an in-place scalar operation or set_value on either factor", ["C04"], False),
    "C07-C": ("C07", "forward_sample aligns partial_samples on index labels", "partial_samples whose index is not 0..n-1", ["C07"], False),
    "C07-D": ("C07", "number-to-name map skipped when names and numbers are the same set", "integer state names that are a non-identity permutation of 0..k-1", ["C07"], False),
    "C10-C": ("C10", "BIC/AIC child cardinality from the un-reindexed count table", "a declared but unobserved child state with >= 1 parent", ["C10"], False),
    "C10-D": ("C10", "structure_score caches scorers by (class, id(data), shape, option names)", "second call on the same frame object with another equivalent_sample_size / state_names", ["C10"], False),
    "C11-C": ("C11", "tabu membership set never shrinks when tabu_length=0", "tabu_length=0 and a climb in which an earlier move has to be undone", ["C11"], False),
    "C11-D": ("C11", "`if not self.root_node` treats the column label 0 as 'no root given'", "integer column labels with root_node=0 that is not the auto-picked root", ["C11"], False),
    "C12-C": ("C12", "PC stable variant drops v-side conditioning sets that contain a common neighbour", "stable variant, a pair separated only by such sets, visited as (u, v)", ["C12"], False),
    "C12-D": ("C12", "Independencies caches a frozenset of its assertions on first membership test", "an Independencies object queried, then extended with add_assertions, then given to PC", ["C12"], False),
    "C13-C": ("C13", "back-door candidates and descendants of X computed on the observed-only subgraph", "a latent mediator X -> L -> D with D on a back-door path and the empty set not valid", ["C13"], False),
    "C13-D": ("C13", "per-node ancestor cache in DAG cleared by add_edge only", "one model object: a d-separation / back-door question observing W, then do([W], inplace=True), then a validity test with W in Z", ["C13"], False),
    "C14-C": ("C14", "clique potential accumulated in place into a factor of the source model", "Markov network / factor graph with a factor spanning a maximal clique plus another factor in it; second look at the source", ["C14", "C16", "C02"], False),
    "C14-D": ("C14", "is_triangulated returns True when the graph has fewer edges than nodes", "disconnected graph: a chordless cycle plus enough tree components", ["C14"], False),
    "C17-C": ("C17", "get_constant_bn returns a cached shared network", "get_constant_bn(), edit the returned network, get_constant_bn() again", ["C17"], False),
    "C17-D": ("C17", "slice-0 forward message built from per-node marginals", ">= 2 dependent unobserved interface nodes and a query in slice >= 1 depending on both", ["C17"], False),
    "C01-E": ("C01", "reduce() resolves an int/bool state inside 0..card-1 as a state number before the name table", "hard evidence on a variable whose integer/bool state names are not the identity numbering; non-greedy elimination order", ["C01", "C04"], False),
    "C01-F": ("C01", "factor_product fast path multiplies same-scope factors elementwise without aligning axes (scope compared as a set)", "non-greedy order and a step whose factors share one scope of >= 2 variables in different orders", ["C01", "C04"], False),
    "C02-E": ("C02", "_is_converged no longer compares clique marginals with the sepset belief", "initial potentials that already agree on every sepset (symmetric tables / all-ones factors)", ["C02"], False),
    "C02-F": ("C02", "_update_beliefs skips a message equal (absolute tolerance 1e-8) to the sepset belief", "potentials of small absolute scale", ["C02"], False),
    "C04-E": ("C04", "integer state names that are a permutation of 0..n-1 get the identity name<->number maps", "explicit state names 0..n-1 in non-ascending order and a lookup by name (reduce)", ["C04", "C01"], False),
    "C04-F": ("C04", "compat max reduces one axis at a time assuming ascending axes", "maximize over >= 2 variables listed in another order than their axes", ["C04", "C03"], False),
    "C06-E": ("C06", "explicit Dirichlet pseudo-counts taken without copy and counts added in place", "prior_type='dirichlet' with float64 ndarray pseudo-counts reused for a second fit (n_jobs=1)", ["C06", "C16"], False),
    "C06-F": ("C06", "state_counts sorts parents by str() while the CPD labelling sorts naturally", "integer node names whose string order differs from numeric order (2, 10) on a node with >= 2 parents", ["C06"], False),
    "C07-F": ("C07", "simulate(): column selection moved before the missingness mask (columns in set order)", "include_missing=True and a comparison across processes with different PYTHONHASHSEED", ["C07"], False),
    "C09-E": ("C09", "XMLBIF writer strips trailing zeros also from the exponent of scientific notation", "an entry below 1e-4 with fractional mantissa and exponent ending in 0 (2.5e-10)", ["C09"], False),
    "C09-F": ("C09", "UAI reader float regex accepts an exponent only after a decimal point", "entries like 1e-05 or 3e-12 (one-digit mantissa)", ["C09"], False),
    "C03-E": ("C03", "triangulate records fill-in edges without adding them to the scratch graph", "a chordless cycle of length >= 5 and a BP MAP query on part of the tree with strongly coupled potentials", ["C03", "C02", "C14"], False),
    "C03-F": ("C03", "divide() aligns the divisor with a reshape instead of a transpose", "a sepset of >= 2 variables laid out in opposite order in sepset and clique belief (hash-seed / name dependent)", ["C03", "C04"], False),
    "C10-E": ("C10", "BaseEstimator keeps the caller's state_names dict and writes undeclared variables into it", "a partial state_names dict handed to two scorers, the second on data showing fewer states", ["C10"], False),
    "C10-F": ("C10", "LRU cache recycles the evicted link without storing the new value", "more distinct (variable, parents) queries than max_size, then a repeat query", ["C10", "C11"], False),
    "C11-E": ("C11", "same slip as C10-F reached through the searches", "ScoreCache with a small max_size as scoring method", ["C11", "C10"], False),
    "C11-F": ("C11", "hill climbing asks the ScoreCache wrapper (uniform) for the structure prior ratio", "scoring_method='bds' with the default cache", ["C11"], False),
    "C12-E": ("C12", "level counter incremented before the max_cond_vars exit test", "max_cond_vars equal to the largest degree of the true skeleton", ["C12"], False),
    "C12-F": ("C12", "orientation rule 'directed path' replaced by a two-step look-up that accepts an undirected first step", ">= 5 nodes and an unlucky node iteration order", ["C12"], False),
    "C13-E": ("C13", "bp back-end: adjustment weights as product of single-variable beliefs", "inference_algo='bp' with >= 2 dependent adjustment variables", ["C13"], False),
    "C13-F": ("C13", "is_valid_adjustment_set removes proper-causal edges from the user's model in place and restores them on the True path only", "a False answer on a graph with a directed X -> ... -> Y path, then any later use", ["C13"], False),
    "C14-E": ("C14", "clique-graph edge weight = separator table size instead of separator variable count", "a cardinality-1 variable shared by >= 2 maximal cliques plus a third clique on the same separator and an unlucky tie-break", ["C14"], False),
    "C14-F": ("C14", "to_factor_graph sorts the factor's own scope list in place (axes relabelled, values not transposed)", "a factor whose variables are not in sorted order", ["C14", "C16"], False),
    "C15-E": ("C15", "DAG.add_edges_from(weights=...) inserts in bulk through networkx, bypassing BayesianNetwork.add_edge's cycle / self-loop checks", "add_edges_from with weights where an edge closes a cycle or is a self loop", ["C15"], False),
    "C15-F": ("C15", "remove_node marginalises the children's CPDs only when the removed node itself has a CPD", "partially parameterised model: removed node without CPD, child with a CPD conditioned on it", ["C15"], False),
    "C16-E": ("C16", "rejection_sample's no-evidence shortcut runs before seeding and does not forward the seed", "rejection_sample(evidence=[], seed=s)", ["C07"], False),
    "C16-F": ("C16", "message-passing BP normalises the single incoming message in place (the unary factor's / virtual evidence's own array)", "loop-free factor graph with an unnormalised unary factor or unnormalised virtual evidence", ["C16"], False),
    "C17-E": ("C17", "evidence entered into the first clique potential containing the variable only", "forward_inference with slice-0 evidence on a variable lying in two cliques", ["C17"], False),
    "C17-F": ("C17", "initialize_initial_state iterates over slice-0 CPDs only", "a template whose intra-slice CPDs are given for slice 1 only", ["C17"], False),
    "C06-G": ("C06", "fit_update transposes the previous CPD with the inverse of the needed permutation", "a node with >= 3 parents whose current CPD lists its evidence in a rotated order", ["C06"], False),
    "C06-H": ("C06", "BayesianEstimator caches state counts per (node, parents) without the weighted flag", "one estimator object asked for the same node with weighted=False and weighted=True", ["C06"], False),
    "C07-G": ("C07", "rejection_sample filters on the visible columns only: evidence on a hidden latent is ignored", "latent evidence variable and include_latents=False", ["C07"], False),
    "C07-H": ("C07", "MarkovChain.set_start_state keeps the caller's list when it is already in variable order", "the same start_state list reused for a second GibbsSampling.sample call", ["C07"], False),
    "C13-G": ("C13", "CausalInference.query builds the per-state evidence on top of the caller's do dict", "the same do dict reused in a later query with another adjustment set", ["C13", "C16"], False),
    "C13-H": ("C13", "front-door back-door-blocking test accepts if any member of Z passes", "|Z| >= 2 with one member whose back-door path to Y is open", ["C13"], False),
    "C15-G": ("C15", "BayesianNetwork.copy shares the latent set with the original", "copy, then add_node(latent=True) on either model", ["C15"], False),
    "C15-H": ("C15", "ClusterGraph.add_edge registers both cliques before the sepset check", "a rejected edge between disjoint cliques with a clique not yet in the graph", ["C15"], False),
    "C16-G": ("C16", "compat to_numpy returns the array itself: the samplers' weight correction is written into the model's CPD", "a parentless node whose CPD column does not sum to exactly one and a direct sampling-engine call", ["C16", "C07"], False),
    "C16-H": ("C16", "DiscreteFactor.sum copies the addend only when it needs extra axes: axis alignment permutes the caller's factor", "factor addition where the addend covers the left operand's variables in another order with unequal cardinalities", ["C04"], False),
    # ---- round 5 (session 3): G/H for the nine properties without a round 4, I/J for the other six; C06..C16 -G/-H of round 4 were
    # re-created by sub-agents from their recorded one-line descriptions (the original files had never been committed)
    "C01-G": ("C01", "VariableElimination.query merges evidence slicing and index building with evidence.get(var): a state literally named None reads as 'not observed'", "hard evidence on a state named None with elimination_order='greedy'", ["C01", "C03"], False),
    "C01-H": ("C01", "_virtual_evidence rebuilds the network from its edge list instead of copying it: isolated nodes are dropped", "virtual evidence on a network with an isolated node", ["C01"], False),
    "C02-G": ("C02", "clique-tree edge weight -|sepset| + 1e-4 * (sepset table size)", "two cliques sharing two variables of >= 101 states next to a clique sharing one of them", ["C02"], False),
    "C02-H": ("C02", "BeliefPropagation.query flattened: virtual-evidence entries written into the caller's evidence dict", "a caller-owned evidence dict used with virtual evidence and reused afterwards", ["C16"], False),
    "C03-G": ("C03", "_get_working_factors resolves the evidence state to a number and hands the number to reduce(), which reads it as a name first", "hard evidence on a variable with integer state names that are not the identity coding, classic elimination path", ["C03", "C01"], False),
    "C03-H": ("C03", "MAP decoding takes the first cell that is np.isclose to the maximum", "unnormalised tables below 1e-8 (Markov network on a small scale) or a runner-up within 1e-5 relative", ["C03"], False),
    "C04-G": ("C04", "__eq__ works on the right operand's own cardinality array: axis alignment swaps it in place", "== between factors with the same scope in another axis order and unequal cardinalities", ["C04"], False),
    "C04-H": ("C04", "divide(): nan_to_num(nan=0, posinf=inf) clamps -inf to the most negative float", "a negative dividend cell over a zero divisor cell", ["C04"], False),
    "C09-G": ("C09", "NET reader normalises a CPD whose columns are off by more than the validity tolerance", "a column that loses more than 0.01 to four-decimal rounding (> 200 states with a heavy sub-rounding tail)", ["C09"], False),
    "C11-G": ("C11", "hill climbing keeps a running best initialised to epsilon and compares with >", "a best legal move that improves the score by exactly epsilon (integer-valued caller-written score)", ["C11"], False),
    "C11-H": ("C11", "TreeSearch label-encodes every column once and hands the codes to the edge-weight function", "a caller-written weight that reads the values, on columns whose states are not coded 0..k-1", ["C11"], False),
    "C12-G": ("C12", "orientation rule 3 iterates a dict collider -> one parent pair", "a sink with several unshielded collider pairs and an edge compelled by rule 3 through the overwritten pair (6 nodes, 13 edges; order dependent)", ["C12"], False),
    "C12-H": ("C12", "PDAG.to_dag: 'if not sink' instead of 'is None'", "a vertex with a falsy name (0, empty string) chosen as the sink", ["C12"], False),
    "C14-G": ("C14", "to_junction_tree links the cliques of each variable only consecutively before the spanning tree", ">= 4 cliques in a particular arrangement and clique enumeration order (0.3-0.7 % of random connected models)", ["C14", "C02"], False),
    "C14-H": ("C14", "moralize() re-uses get_immoralities(), which sorts parent pairs", "two non-adjacent parents whose names are of unorderable types", ["C14"], False),
    "C17-G": ("C17", "forward pass swaps the interface potential in place (clique * new / old)", "an interface potential that is exactly zero at slice t-1 for a state reachable at slice t (0/0 = 0 keeps it impossible)", ["C17"], False),
    "C17-H": ("C17", "interface marginal returned with name-sorted scope, transposed with the inverse permutation", ">= 3 interface variables whose junction-tree scope order is a 3-cycle of the sorted order (hash-seed dependent)", ["C17"], False),
    "C06-I": ("C06", "fit_update reads the previous CPD's parent order via get_evidence() (reversed)", "a previous CPD with >= 2 parents listed in exactly descending name order", ["C06"], False),
    "C06-J": ("C06", "EM E-step indexes CPD values by the estimator's state order", "init_cpds over a latent and an observed variable whose state order differs from the estimator's", ["C06"], False),
    "C07-I": ("C07", "likelihood weighting reads the constant weight of a fully observed family positionally in get_evidence() order", "an evidence node with >= 2 parents, all observed, non-palindromic parent states", ["C07"], False),
    "C07-J": ("C07", "_return_samples maps numbers to names through a numpy array without dtype=object", "a variable with state names of mixed Python types", ["C07"], False),
    "C10-I": ("C10", "BDeu adjustment counts cells in both a missing row and a missing column twice", "a declared-only child state and an unobserved parent configuration in one family", ["C10"], False),
    "C10-J": ("C10", "structure_score forwards only keyword arguments named in the score's signature: state_names is dropped", "the metric wrapper called with state_names that declare an unobserved state", ["C10"], False),
    "C13-I": ("C13", "CausalInference keeps one inference engine per back-end", "one CausalInference object, a bp question, a CPD of the live network replaced, another bp question", ["C13"], False),
    "C13-J": ("C13", "front-door test walks directed paths with a cutoff that is one edge too small", "a directed path from X to Y that avoids Z and visits every node outside Z", ["C13"], False),
    "C15-I": ("C15", "ClusterGraph.add_edge converts its endpoints to tuples after JunctionTree.add_edge has run its guards on the caller's objects", "cliques named by frozensets", ["C15"], False),
    "C15-J": ("C15", "BayesianNetwork.do no longer materialises its argument", "the nodes given as a one-shot iterator", ["C15"], False),
    "C16-I": ("C16", "per-engine reduce-map cache keyed by node only", "one sampling engine used for forward/rejection and likelihood-weighted sampling on a node with >= 2 parents", ["C07"], False),
    "C16-J": ("C16", "_return_samples skips the number-to-name map when names and numbers are the same set", "integer state names that are a non-identity permutation of 0..k-1", ["C07", "C16"], False),
    # ---- round 6 (session 3): six properties, K/L
    "C02-K": ("C02", "BeliefPropagation._query sorts the cliques that contain query / evidence variables", "variable names of unorderable types in one model, a query touching >= 2 cliques", ["C02"], False),
    "C02-L": ("C02", "clique-tree calibration as two recursive sweeps", "a clique tree with a path of about a thousand cliques (RecursionError)", ["C02"], False),
    "C06-K": ("C06", "EM E-step multiplies only the CPDs of latents and of variables without a supplied start table", "init_cpds that contain an observed child of a latent variable", ["C06"], False),
    "C06-L": ("C06", "fit_update: n_prev_samples = n_prev_samples or len(data)", "an explicit n_prev_samples of 0", ["C06"], False),
    "C07-K": ("C07", "Gibbs kernels of a Markov network: factor product memoised per union scope", "two variables whose factor lists differ but span the same variable set (triangle, pair + unary)", ["C07"], False),
    "C07-L": ("C07", "forward sampling: uint8 state numbers and a mixed-radix code of the parent configuration (two sites)", "a family with more than 256 parent configurations", ["C07"], False),
    "C09-K": ("C09", "XMLBIF writer caches the table text per CPD (hash / == ignore the declared parent order)", "two writes in one process of equal CPDs that declare their parents in different orders", ["C09"], False),
    "C09-L": ("C09", "save / load find the format by endswith() over a set of names, without the dot", "a *.xmlbif name under some hash seeds; a name that merely ends in 'bif' / 'uai'", ["C09"], False),
    "C12-K": ("C12", "skeleton_to_pdag visits unordered node pairs in its symmetric steps - the directed-path step is not symmetric", "an edge only the directed-path rule can orient whose head precedes its tail in node order", ["C12"], False),
    "C12-L": ("C12", "parallel PC skips edges unless BOTH endpoints have enough neighbours", "variant='parallel', a separating set of size >= 2 on the higher-degree endpoint's side only", ["C12"], False),
    "C15-K": ("C15", "remove_nodes_from drops the removed nodes' CPDs while iterating over the live CPD list", ">= 2 removed nodes whose CPDs are neighbours in registration order", ["C15"], False),
    "C15-L": ("C15", "do() marginalises over the graph parents recorded before cutting, not over the CPD's own evidence", "a CPD out of step with the parent set (edge added after the CPD, or CPD registered with a parent before the edge)", ["C15"], False),
    "C10-G": ("C10", "K2 local score drops the adjustment for parent configurations removed by reindex=False", "K2, a child with >= 3 states and an unobserved parent configuration", ["C10"], False),
    "C10-H": ("C10", "state space of a categorical column taken from the dtype's categories", "no state_names, categorical dtype with a category occurring in no row", ["C10"], False),
    "C17-B": ("C17", "initialize_initial_state pairs parent cardinalities with reversed parent names", "a CPD given for one slice with >= 2 same-slice parents of different cardinalities", ["C17"], True),
}


def main():
    for sid, (prop, change, needs, caught, rebased) in sorted(T.items()):
        d = os.path.join(VERIF, "seeded", sid)
        if not os.path.isdir(d):
            print("missing", sid)
            continue
        log = ""
        lp = os.path.join(d, "confirm.log")
        if os.path.exists(lp):
            log = open(lp).read()
        m = re.search(r"confirmed against /repo HEAD (\w+) on (\S+)", log)
        d0 = re.search(r"demo on unpatched tree: exit (\d+)", log)
        d1 = re.search(r"demo on patched tree: exit (\d+)", log)
        ts = re.search(r"collected=(\d+) passed=(\d+) stable_regressions=(\d+)(?: flaky_rerun_ok=(\d+))? stable_missing=(\d+)", log)
        regress = re.findall(r"^REGRESSION (\S+)", log, flags=re.M)
        meta = {
            "seed": sid,
            "property": prop,
            "origin": "independent sub-agent given only the property text and a scratch worktree of pgmpy (nothing from /verif)",
            "change": change,
            "needs_to_manifest": needs,
            "rebased_onto_repaired_tree": rebased,
            "confirmed": {
                "repo_head": m.group(1) if m else None,
                "when": m.group(2) if m else None,
                "command": f"tools/seed_confirm.sh {sid} <patch> <demo> <notes>  (scratch worktree of /repo HEAD; demo unpatched and patched; tools/testcmp.py full suite vs BASELINE.json, failures re-run alone)",
                "demo_exit_unpatched": int(d0.group(1)) if d0 else None,
                "demo_exit_patched": int(d1.group(1)) if d1 else None,
                "suite": {"collected": int(ts.group(1)), "passed": int(ts.group(2)), "stable_regressions": int(ts.group(3)),
                          "flaky_passed_on_rerun": int(ts.group(4) or 0), "stable_missing": int(ts.group(5))} if ts else None,
                "stable_tests_failing_in_parallel_run": regress,
                "note": "the only stable tests seen failing are the unseeded sampling tests of test_ApproxInference (statistically flaky; they pass when re-run alone and fail equally on the unpatched tree)" if regress else "",
            },
            "caught_by_quick_checks": caught,
            "evaluated_with": f"tools/seed_eval.sh seeded/{sid}/patch.diff " + " ".join(caught),
        }
        with open(os.path.join(d, "meta.json"), "w") as fh:
            json.dump(meta, fh, indent=1)
        print(sid, "ok", meta["confirmed"]["repo_head"], meta["confirmed"]["demo_exit_unpatched"], meta["confirmed"]["demo_exit_patched"], meta["confirmed"]["suite"])


if __name__ == "__main__":
    main()
