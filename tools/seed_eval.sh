#!/bin/bash
# usage: tools/seed_eval.sh <patch.diff> <Cxx> [more Cxx...]   - applies the patch to a scratch worktree of /repo HEAD
# (outside /repo and /verif), runs the given quick checks against it via PGMSIM_REPO, removes the worktree.
set -u
patch="$(readlink -f "$1")"; shift
wt=/tmp/wt/eval.$$
git -C /repo worktree add -q --detach "$wt" HEAD || exit 2
if ! git -C "$wt" apply "$patch" 2>/tmp/wt/eval.$$.err; then
  if ! git -C "$wt" apply --3way "$patch" 2>>/tmp/wt/eval.$$.err; then
    echo "PATCH DOES NOT APPLY: $patch"; cat /tmp/wt/eval.$$.err; git -C /repo worktree remove --force "$wt"; exit 2
  fi
fi
for p in "$@"; do
  echo "=== $p against $(basename $patch)"
  PGMSIM_REPO="$wt" /verif/vcheck "$p" quick 2>&1 | grep -E "VIOLATION|KNOWN-FINDING|^\[pgmsim\] C.*rc=|HARNESS|sig=" | cut -c1-260 | head -12
done
git -C /repo worktree remove --force "$wt"
rm -f /tmp/wt/eval.$$.err
