#!/bin/bash
# usage: tools/seed_confirm.sh <seed-id> <patch.diff> <demo.py> <notes.md>
# Confirms a seeded change in a scratch worktree of /repo HEAD (outside /repo and /verif): the demo passes without and fails
# with the patch; the existing test-suite shows no regression against BASELINE.json.  Writes /verif/seeded/<id>/{patch.diff,demo.py,notes.md,confirm.log}
set -u
id="$1"; patch="$(readlink -f "$2")"; demo="$(readlink -f "$3")"; notes="$(readlink -f "$4")"
out=/verif/seeded/$id
mkdir -p "$out"
wt=/tmp/wt/confirm.$id
git -C /repo worktree remove --force "$wt" 2>/dev/null
git -C /repo worktree add -q --detach "$wt" HEAD || exit 2
export OMP_NUM_THREADS=1 MKL_NUM_THREADS=1 OPENBLAS_NUM_THREADS=1
log="$out/confirm.log"
{
echo "seed $id confirmed against /repo HEAD $(git -C /repo rev-parse --short HEAD) on $(date -u +%FT%TZ)"
cp "$demo" "$wt/_demo.py"
( cd "$wt" && PYTHONPATH="$wt" timeout 900 /venv/bin/python -W ignore _demo.py > "$wt/_demo_pristine.out" 2>&1 ); rc0=$?
echo "demo on unpatched tree: exit $rc0"; tail -3 "$wt/_demo_pristine.out"
if ! git -C "$wt" apply "$patch"; then echo "PATCH DOES NOT APPLY"; git -C /repo worktree remove --force "$wt"; exit 2; fi
( cd "$wt" && PYTHONPATH="$wt" timeout 900 /venv/bin/python -W ignore _demo.py > "$wt/_demo_patched.out" 2>&1 ); rc1=$?
echo "demo on patched tree: exit $rc1"; tail -5 "$wt/_demo_patched.out"
rm -f "$wt/_demo.py" "$wt"/_demo_*.out
echo "test-suite on patched tree (tools/testcmp.py, compared with BASELINE.json stable_pass):"
NPROC=${NPROC:-6} /verif/tools/testcmp.py "$wt" 2>&1 | tail -8
echo "testcmp exit: $?"
} > "$log" 2>&1
cp "$patch" "$out/patch.diff" 2>/dev/null; cp "$demo" "$out/demo.py"; cp "$notes" "$out/notes.md"
git -C /repo worktree remove --force "$wt"
tail -4 "$log"
