#!/usr/bin/env python3
"""Run pgmpy's test-suite (or part of it) in a given checkout and compare with /root/.vp/BASELINE.json.
usage: testcmp.py <repo_dir> [pytest paths...]   (exit 0 iff no stable-pass test failed or went missing among the collected files)"""
import json, os, subprocess, sys, tempfile
import xml.etree.ElementTree as ET

repo = sys.argv[1]
paths = sys.argv[2:] or ["pgmpy/tests"]
base = json.load(open("/root/.vp/BASELINE.json"))
stable = set(base["stable_pass"])
with tempfile.TemporaryDirectory() as td:
    xml = os.path.join(td, "r.xml")
    # LOKY_MAX_CPU_COUNT: tests that use n_jobs=-1 otherwise start 16 loky workers per xdist worker (0.5 GB each)
    env = dict(os.environ, PYTHONPATH=repo, PYTHONDONTWRITEBYTECODE="1", LOKY_MAX_CPU_COUNT="2", OMP_NUM_THREADS="1", MKL_NUM_THREADS="1")
    cmd = ["/venv/bin/python", "-W", "ignore", "-m", "pytest", "-q", "-p", "no:cacheprovider", "--timeout=900",
           "--continue-on-collection-errors", "-n", os.environ.get("NPROC", "8"), f"--junitxml={xml}"] + paths
    r = subprocess.run(cmd, cwd=repo, env=env, stdout=subprocess.PIPE, stderr=subprocess.STDOUT, text=True)
    print(r.stdout[-600:])
    root = ET.parse(xml).getroot()
    res = {}
    for tc in root.iter("testcase"):
        name = f"{tc.get('classname')}::{tc.get('name')}"
        bad = any(ch.tag in ("failure", "error") for ch in tc)
        skipped = any(ch.tag == "skipped" for ch in tc)
        res[name] = "fail" if bad else ("skip" if skipped else "pass")
files = {n.split("::")[0].rsplit(".", 1)[0] for n in res}
regress = sorted(n for n in stable if n in res and res[n] != "pass")
missing = sorted(n for n in stable if n not in res and n.split("::")[0].rsplit(".", 1)[0] in files) if paths != ["pgmpy/tests"] else sorted(n for n in stable if n not in res)
# a stable test that failed in the parallel run is re-run alone (twice at most): several baseline tests are
# statistically flaky (unseeded sampling) or time out under load
flaky = []
still = []
for n in regress:
    cls, name = n.split("::")
    mod, klass = cls.rsplit(".", 1)
    nodeid = mod.replace(".", "/") + ".py::" + klass + "::" + name
    ok = False
    for attempt in range(2):
        r2 = subprocess.run(["/venv/bin/python", "-W", "ignore", "-m", "pytest", "-q", "-p", "no:cacheprovider", "--timeout=900", nodeid],
                            cwd=repo, env=env, stdout=subprocess.PIPE, stderr=subprocess.STDOUT, text=True)
        if r2.returncode == 0:
            ok = True
            break
    (flaky if ok else still).append(n)
for n in flaky:
    print("FLAKY (failed in the parallel run, passed when re-run alone)", n)
regress = still
print(f"collected={len(res)} passed={sum(v=='pass' for v in res.values())} stable_regressions={len(regress)} flaky_rerun_ok={len(flaky)} stable_missing={len(missing)}")
for n in regress[:20]:
    print("REGRESSION", n)
for n in missing[:20]:
    print("MISSING", n)
sys.exit(1 if regress or missing else 0)
