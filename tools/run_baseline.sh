#!/bin/bash
# Runs the repository's pinned baseline command (sequential, as in /root/.vp/BASELINE.json) on /repo and compares with stable_pass.
out=/tmp/wt/baseline.$$.xml
cd /repo && LOKY_MAX_CPU_COUNT=2 OMP_NUM_THREADS=2 /venv/bin/python -m pytest -ra -q -p no:cacheprovider --timeout=900 --continue-on-collection-errors --junitxml=$out > /tmp/wt/baseline.$$.log 2>&1
python3 - "$out" <<'PY'
import json, sys
import xml.etree.ElementTree as ET
base = json.load(open("/root/.vp/BASELINE.json"))
stable = set(base["stable_pass"])
res = {}
for tc in ET.parse(sys.argv[1]).getroot().iter("testcase"):
    name = f"{tc.get('classname')}::{tc.get('name')}"
    bad = any(ch.tag in ("failure", "error") for ch in tc)
    sk = any(ch.tag == "skipped" for ch in tc)
    res[name] = "fail" if bad else ("skip" if sk else "pass")
reg = sorted(n for n in stable if res.get(n) != "pass")
print(f"BASELINE-COMPARE head={sys.argv[1]} collected={len(res)} passed={sum(v=='pass' for v in res.values())} stable_not_passing={len(reg)}")
for n in reg[:30]:
    print("NOT-PASSING", n, res.get(n))
PY
