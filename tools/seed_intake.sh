#!/bin/bash
# usage: tools/seed_intake.sh <seed-id> <dir with patch.diff demo.py notes.md> <Cxx> [more Cxx...]
# confirm (demo both ways + full suite) and evaluate against the named quick checks; prints one summary line
id="$1"; d="$2"; shift 2
cd /verif
tools/seed_confirm.sh "$id" "$d/patch.diff" "$d/demo.py" "$d/notes.md" > /tmp/r5/intake-$id.confirm 2>&1
conf=$(grep -E "demo on (un)?patched|stable_regressions|PATCH DOES NOT" seeded/$id/confirm.log | tr '\n' ' ')
ev=$(tools/seed_eval.sh seeded/$id/patch.diff "$@" 2>&1)
echo "$ev" > /tmp/r5/intake-$id.eval
res=""
for c in "$@"; do
  if echo "$ev" | grep -q "VIOLATION property=$c"; then res="$res $c:caught"; else res="$res $c:MISSED"; fi
done
echo "INTAKE $id | $conf |$res"
