#!/usr/bin/env python3
"""Regenerates /verif/MANIFEST.json from the table below (checks listed only when their scenario exists)."""
import json
import os
import subprocess

VERIF = os.path.dirname(os.path.dirname(os.path.abspath(__file__)))

TECH = "deterministic simulation with fault injection: seeded search over schedules (hash order, insertion order, option points), op histories and injected faults against real pgmpy, oracle = executable reference model; ddmin-minimised replay files"

CHECKS = {
    "C01": ("3 C01", "seeded exploration of VariableElimination.query / get_state_probability / predict_probability over PRNG-drawn networks, hash seeds, insertion orders, elimination-order options and virtual evidence; every answer compared by named assignment with the brute-force joint"),
    "C02": ("3 C02", "seeded exploration of junction-tree layouts (hash seed x labels x insertion order x triangulation heuristic) for BN / MN / factor-graph / junction-tree worlds; clique and sepset beliefs and query answers compared with the brute-force joint after every step of an engine history"),
    "C03": ("3 C03", "seeded exploration of MAP queries (VE all elimination orders, BP, predict under the SimParallel worker stub with batching / reorder / pickle isolation); returned assignment must attain the brute-force posterior maximum"),
    "C04": ("3 C04", "op histories over a pool of live factors (in-place / out-of-place, refused ops, numpy and torch backends, hash-ordered result scopes); every pool member compared with a dict-of-assignments twin after every step"),
    "C06": ("3 C06", "MLE / Bayesian / fit_update / EM under the SimParallel worker stub (batching, reorder, pickle isolation), batch-size knob and seed swarm; closed-form counts and brute-force observed-data likelihood as oracle"),
    "C07": ("3 C07", "samplers run around a perturbed process-global numpy RNG; exact per-row law (support, weights, kernels), reproducibility under perturbation, Hoeffding-bounded frequency law with a 1e-12 per-cell error budget"),
    "C09": ("3 C09", "write/read round trips through an in-memory file system with injected ENOSPC/EIO at every open / write / close / read point, BIF reader under the worker stub, every worker a different hash seed; oracle = named-assignment table of the source model"),
    "C10": ("3 C10", "call histories against ScoreCache with a randomised capacity knob (evictions forced), compared with the uncached scorer and closed-form scores from raw counts; Markov-equivalence and permutation invariance checks"),
    "C11": ("3 C11", "hill climbing under hash-order tie breaking, score-cache knob and option swarm; exhaustive and tree search under the worker stub; contract checked against a reference scorer with exhaustive move / DAG / spanning-tree enumeration"),
    "C12": ("3 C12", "PC variants under hash-order pair visiting and the worker stub (isolation for the parallel variant) with an exact d-separation oracle; skeleton, separating sets and CPDAG compared with brute force; PDAG.to_dag contract"),
    "C13": ("3 C13", "do() and CausalInference.query histories on one engine (VE and BP back-ends, refused queries in between) compared with the truncated-factorisation joint; adjustment-set enumeration against path-based criteria"),
    "C14": ("3 C14", "model conversions under hash-order-driven triangulation / clique assignment with heuristic knob; normalised joint and partition function of the target compared with the source's brute-force joint; structural predicates"),
    "C15": ("3 C15", "stateful edit histories (valid and refused operations at arbitrary points, live copies edited in turn) on BayesianNetwork / DAG / DBN / MarkovNetwork / JunctionTree against a logical graph+CPD reference model; invariants after every step"),
    "C16": ("3 C16", "three monitors: deep snapshots of every argument around every call (purity), engine-with-history vs fresh engine after every step incl. refused and virtual-evidence queries (repeatability), twin runs under other labels / state orders / insertion orders / hash seeds / torch backend (representation independence)"),
    "C17": ("3 C17", "DBNInference query histories (filtering and smoothing, evidence anywhere, templates with zeros) on one engine under hash-order-driven junction-tree layouts compared with brute-force marginals of the unrolled network; constant network and initial-state completion"),
}

NOT_APPLICABLE = [
    ("C05", "pure function of the CPD/model arguments (quantifier: inputs only): no schedule, RNG, I/O, worker, cache or engine state reaches the result; deciding it would be input generation, not simulation"),
    ("C08", "d-separation / blanket / moral / ancestral graphs are order-independent fixpoints of the graph argument; no seam or history to simulate (quantifier: inputs only)"),
    ("C18", "I-equivalence, semi-graphoid closure, entailment and numeric independence checks are pure functions of their arguments; no nondeterminism, fault or history"),
    ("C19", "CI tests are deterministic numeric functions of a data frame; no randomness, I/O, workers or state"),
    ("C20", "linear-Gaussian algebra is deterministic matrix computation; the only seam (simulate's RNG) is outside the stated property"),
]


def main():
    claimed = [p for p in sorted(CHECKS) if os.path.exists(os.path.join(VERIF, "pgmsim", "scenarios", p.lower() + ".py"))]
    try:
        commits = subprocess.run(["git", "-C", "/repo", "log", "--format=%h %s", "fe1f674..HEAD"], capture_output=True, text=True).stdout.strip().splitlines()
    except Exception:
        commits = []
    hook_commits = [c.split()[0] for c in commits if not c.split(" ", 1)[1].startswith("fix:")]
    checks = []
    for p in claimed:
        ref, text = CHECKS[p]
        checks.append({
            "property_id": p,
            "quick_cmd": f"./vcheck {p} quick",
            "thorough_cmd": f"./vcheck {p} thorough",
            "evidence_file": f"/verif/evidence/{p}.json",
            "replay_cmd_template": "./vcheck replay {path}",
            "engine": "pgmsim",
            "level_claimed": {"category": "exploration", "text": text + ". Seeded sampling of schedules and histories: a clean batch is evidence, not proof.", "design_ref": "DESIGN.md section " + ref},
            "level_note": "trusted: the reference models in pgmsim/refmodel.py and the scenario oracles; numpy; bounds of the generated worlds (see evidence rule); one hash seed per worker process; joblib and the file system are in-process stubs that perform only legal schedules/faults",
            "technique": TECH,
        })
    missing = [p for p in sorted(CHECKS) if p not in claimed]
    na = [{"property_id": p, "reason": r} for p, r in NOT_APPLICABLE]
    for p in missing:
        na.append({"property_id": p, "reason": "simulation target (see DESIGN.md) but its check is not built yet in this revision; not claimed until it is"})
    man = {
        "version": 1,
        "setup_cmd": "./vcheck setup",
        "hooks": {
            "guard": "PGMPY_VERIF",
            "enable": "no source hooks: all seams (hash seed, global numpy RNG, joblib Parallel names, builtins.open, pgmpy.config) are patched from outside by /verif/pgmsim; checks import /repo's working tree directly (sys.path[0]=/repo), nothing to build",
            "baseline_off_cmd": "cd /repo && /venv/bin/python -m pytest -ra -q -p no:cacheprovider --timeout=900 --continue-on-collection-errors",
            "source_commits": hook_commits,
            "add_only": True,
        },
        "engines": [{"name": "pgmsim", "path": "/verif/pgmsim", "serves_properties": claimed,
                     "kind_free_text": "seeded deterministic simulator: PRNG-chosen worlds, labels/hash seeds, op histories and injected faults run against real pgmpy with brute-force reference models as oracles; ddmin shrinking; fresh-process replay"}],
        "checks": checks,
        "not_applicable": sorted(na, key=lambda x: x["property_id"]),
        "notes": "See DESIGN.md. Technique family: deterministic simulation with fault injection. Exit codes of ./vcheck: 0 held (KNOWN-FINDING lines allowed), 1 VIOLATION, 2 harness error, 3 non-reproducible failure. Fixes of genuine defects are unguarded 'fix:' commits in /repo listed in known_findings.json.",
    }
    with open(os.path.join(VERIF, "MANIFEST.json"), "w") as fh:
        json.dump(man, fh, indent=1)
    print("claimed:", claimed)


if __name__ == "__main__":
    main()
