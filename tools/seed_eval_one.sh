#!/bin/bash
# usage: tools/seed_eval_one.sh <seed-id>  - one line "<id>: <check>:caught|MISSED ..." (used by seed_eval_all.sh / xargs -P)
cd /verif
id="$1"; d=seeded/$id
[ -f $d/meta.json ] || exit 0
checks=$(python3 -c "import json;print(' '.join(json.load(open('$d/meta.json'))['caught_by_quick_checks']))")
[ -n "$checks" ] || { echo "$id: (rejected seed, not evaluated)"; exit 0; }
out=$(tools/seed_eval.sh $d/patch.diff $checks 2>&1)
if echo "$out" | grep -q "PATCH DOES NOT APPLY"; then echo "$id: PATCH DOES NOT APPLY"; exit 0; fi
res=""
for c in $checks; do
  if echo "$out" | grep -q "VIOLATION property=$c"; then res="$res $c:caught"; else res="$res $c:MISSED"; fi
done
echo "$id:$res"
