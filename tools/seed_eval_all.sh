#!/bin/bash
# Evaluates every kept seeded change (seeded/<id>/patch.diff) against the quick checks named in its meta.json.
# usage: tools/seed_eval_all.sh [parallel jobs, default 1] [first id to evaluate]   (sort the output lines afterwards)
cd /verif
P=${1:-1}; from=${2:-}
ls seeded | grep -v EVAL_ALL | awk -v f="$from" 'f=="" || $0>=f' | xargs -P "$P" -n 1 tools/seed_eval_one.sh
