#!/bin/bash
# Evaluates every kept seeded change (seeded/<id>/patch.diff) against the quick checks named in its meta.json.
cd /verif
for d in seeded/*/; do
  id=$(basename $d)
  [ -f $d/meta.json ] || continue
  checks=$(python3 -c "import json;print(' '.join(json.load(open('$d/meta.json'))['caught_by_quick_checks']))")
  out=$(tools/seed_eval.sh $d/patch.diff $checks 2>&1)
  if echo "$out" | grep -q "PATCH DOES NOT APPLY"; then echo "$id: PATCH DOES NOT APPLY"; continue; fi
  res=""
  for c in $checks; do
    if echo "$out" | grep -q "VIOLATION property=$c"; then res="$res $c:caught"; else res="$res $c:MISSED"; fi
  done
  echo "$id:$res"
done
