import os
import sys

HERE = os.path.dirname(os.path.abspath(__file__))
if HERE not in sys.path:
    sys.path.insert(0, HERE)

from pgmsim import cli  # noqa: E402

if __name__ == "__main__":
    sys.exit(cli.main(sys.argv[1:]))
