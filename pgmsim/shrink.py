"""Minimisation: ddmin over the operation list, then scenario-provided world/config passes.
A candidate is kept only if a failure with the *same signature* still occurs."""
import copy
import time

from . import core


def _fails(prop, case, sig):
    try:
        ctx = core.run_case(prop, case)
    except Exception:
        return False
    return any(f["sig"] == sig for f in ctx.failures)


def ddmin(items, test, deadline):
    """Classic ddmin; test(list) -> True if still failing."""
    n = 2
    items = list(items)
    while len(items) >= 1 and time.monotonic() < deadline:
        if len(items) == 1:
            if test([]):
                return []
            return items
        chunk = max(1, len(items) // n)
        subsets = [items[i:i + chunk] for i in range(0, len(items), chunk)]
        reduced = False
        for i, sub in enumerate(subsets):
            if time.monotonic() >= deadline:
                break
            comp = [x for j, s in enumerate(subsets) if j != i for x in s]
            if test(sub):
                items = sub
                n = 2
                reduced = True
                break
            if len(subsets) > 2 and test(comp):
                items = comp
                n = max(n - 1, 2)
                reduced = True
                break
        if not reduced:
            if n >= len(items):
                break
            n = min(len(items), n * 2)
    return items


def shrink_case(prop, case, sig, budget_s=45.0):
    deadline = time.monotonic() + budget_s
    sc = core.scenario(prop)
    best = copy.deepcopy(case)
    tests = [0]

    def test_case(c):
        tests[0] += 1
        return _fails(prop, c, sig)

    for key in getattr(sc, "OP_KEYS", ["ops"]):
        if isinstance(best.get(key), list) and len(best[key]) > 0:
            def test_ops(ops, key=key):
                c = dict(best)
                c[key] = ops
                return test_case(c)
            min_len = getattr(sc, "MIN_OPS", 0)
            new_ops = ddmin(best[key], test_ops, deadline)
            if len(new_ops) >= min_len:
                best[key] = new_ops
    cand_fn = getattr(sc, "shrink_candidates", None)
    if cand_fn is not None:
        progress = True
        while progress and time.monotonic() < deadline:
            progress = False
            for cand in cand_fn(best):
                if time.monotonic() >= deadline:
                    break
                if test_case(cand):
                    best = cand
                    progress = True
                    break
    return best, tests[0]
