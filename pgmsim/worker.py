"""Worker process: one PYTHONHASHSEED, many simulated runs.  Started by cli.py as
`python pgmsim_worker.py <jobfile>`; appends one JSON line per run to job['out']."""
import faulthandler
import json
import os
import signal
import sys
import time
import traceback


class RunTimeout(BaseException):
    pass


def _alarm(signum, frame):
    raise RunTimeout()


def setup_path():
    repo = os.environ.get("PGMSIM_REPO", "/repo")
    if repo in sys.path:
        sys.path.remove(repo)
    sys.path.insert(0, repo)
    for k in ("OMP_NUM_THREADS", "MKL_NUM_THREADS", "OPENBLAS_NUM_THREADS"):
        os.environ.setdefault(k, "1")


def main(argv):
    setup_path()
    faulthandler.enable()
    with open(argv[0]) as fh:
        job = json.load(fh)
    import warnings

    warnings.filterwarnings("ignore")
    import logging

    logging.disable(logging.CRITICAL)
    try:
        import torch

        torch.set_num_threads(1)
    except Exception:
        pass
    from . import core, findings, shrink
    from .prng import Streams, derive

    prop = job["prop"]
    tier = job.get("tier", "quick")
    hashseed = os.environ.get("PYTHONHASHSEED", "random")
    out = open(job["out"], "a")
    sc = core.scenario(prop)
    known = findings.open_sigs(prop)
    run_timeout = int(job.get("run_timeout", 180))
    signal.signal(signal.SIGALRM, _alarm)

    def emit(rec):
        out.write(json.dumps(rec, default=core._default) + "\n")
        out.flush()

    import pgmpy

    emit({"type": "hello", "hashseed": hashseed, "pgmpy": os.path.dirname(pgmpy.__file__), "pid": os.getpid()})

    if job["mode"] == "replay":
        rp = job["replay"]
        case = rp["case"]
        signal.alarm(run_timeout)
        try:
            ctx = core.run_case(prop, case, tier)
            emit({"type": "replay", "summary": ctx.summary(), "events": ctx.events if job.get("events") else None})
        except RunTimeout:
            emit({"type": "replay", "timeout": True, "summary": {"failures": [{"clause": "liveness", "sig": f"{prop}:timeout", "detail": "no progress within bound", "step": -1}], "digest": "timeout"}})
        except Exception as e:
            emit({"type": "replay", "harness_error": traceback.format_exc()})
        finally:
            signal.alarm(0)
        return 0

    shrunk_sigs = set()
    max_shrinks = int(job.get("max_shrinks", 3))
    n_done = -1
    for item in job["runs"]:
        n_done += 1
        runseed = item["runseed"]
        rec = {"type": "run", "runseed": runseed, "idx": item.get("idx")}
        t0 = time.monotonic()
        case = None
        try:
            signal.alarm(run_timeout)
            streams = Streams(runseed)
            case = sc.generate(streams, tier)
            ctx = core.run_case(prop, case, tier)
            signal.alarm(0)
            rec.update(ctx.summary())
            if item.get("common"):
                # the same run seed is executed by every worker (another hash seed each): keep the case for the parent's comparison
                rec["common"] = True
                cpath = os.path.join(job["common_dir"], f"{runseed}.case.json")
                if not os.path.exists(cpath):
                    tmp = cpath + f".{os.getpid()}"
                    with open(tmp, "w") as fh:
                        json.dump(case, fh, default=core._default)
                    os.replace(tmp, cpath)
            if n_done < 1:
                rec["sample"] = sc.describe(case) if hasattr(sc, "describe") else case
        except RunTimeout:
            signal.alarm(0)
            rec["timeout"] = True
            rec["failures"] = [{"clause": "liveness", "sig": f"{prop}:timeout", "detail": "no progress within bound", "step": -1}]
            rec["digest"] = "timeout"
        except Exception:
            signal.alarm(0)
            rec["harness_error"] = traceback.format_exc()
            emit(rec)
            continue
        finally:
            signal.alarm(0)
        rec["wall"] = round(time.monotonic() - t0, 4)
        hfail = [f for f in rec.get("failures", []) if ":HARNESS:" in f["sig"]]
        if hfail:
            rec["harness_error"] = "exception raised outside pgmpy (scenario code): " + json.dumps(hfail[0], default=core._default)[:1500]
            rec["failures"] = []
            emit(rec)
            continue
        # failures: classify, minimise unknown ones
        for f in rec.get("failures", []):
            f["known"] = f["sig"] in known
        unknown = []
        for f in rec.get("failures", []):
            if not f["known"] and f["sig"] not in [u["sig"] for u in unknown]:
                unknown.append(f)
        rec["replays"] = []
        for f in unknown:
            if case is None:
                continue
            sig = f["sig"]
            mini = case
            ntests = 0
            if job.get("shrink", True) and sig not in shrunk_sigs and len(shrunk_sigs) < max_shrinks and not rec.get("timeout"):
                shrunk_sigs.add(sig)
                try:
                    signal.alarm(int(job.get("shrink_timeout", 150)))
                    mini, ntests = shrink.shrink_case(prop, case, sig, budget_s=float(job.get("shrink_budget", 45)))
                except RunTimeout:
                    mini = case
                except Exception:
                    mini = case
                finally:
                    signal.alarm(0)
            rdir = job["replay_dir"]
            os.makedirs(rdir, exist_ok=True)
            import hashlib

            tag = hashlib.sha256(sig.encode()).hexdigest()[:8]
            path = os.path.join(rdir, f"{hashseed}-{runseed}-{tag}.json")
            with open(path, "w") as fh:
                json.dump({"property": prop, "clause": f["clause"], "sig": sig, "detail": f["detail"],
                           "hashseed": hashseed, "runseed": runseed, "tier": tier, "shrink_tests": ntests,
                           "case": mini, "original_case_ops": _nops(case), "minimised_case_ops": _nops(mini),
                           # kept for the parent: a failure that depends on what the process did before (a cache in the code under
                           # test that outlives a run) lets candidates "fail" in the polluted worker that pass in a fresh interpreter;
                           # the parent then falls back to the case as generated
                           "original_case": (case if mini is not case else None)},
                          fh, default=core._default, indent=1)
            rec["replays"].append({"sig": sig, "clause": f["clause"], "path": path, "detail": f["detail"]})
        emit(rec)
    emit({"type": "bye"})
    return 0


def _nops(case):
    if isinstance(case, dict) and isinstance(case.get("ops"), list):
        return len(case["ops"])
    return None
