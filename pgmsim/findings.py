"""known_findings.json: read-only at run time.

{"open":  [{"property": "C09", "sig": "...", "what": "..."}],
 "fixed": ["fixed: property=C15 <commit> <what failed>"]}

An open finding suppresses exactly the failures whose signature equals its `sig`.  Signatures are
computed by the scenarios from an *explained-by* predicate evaluated on the failing step, so a
different failure of the same property has another signature and is still reported."""
import json
import os

PATH = os.path.join(os.path.dirname(os.path.dirname(os.path.abspath(__file__))), "known_findings.json")


def load():
    if not os.path.exists(PATH):
        return {"open": [], "fixed": []}
    with open(PATH) as fh:
        d = json.load(fh)
    d.setdefault("open", [])
    d.setdefault("fixed", [])
    return d


def open_sigs(prop=None):
    d = load()
    return {f["sig"]: f for f in d["open"] if prop is None or f["property"] == prop}
