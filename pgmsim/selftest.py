"""Determinism self-test: the same (hashseed, runseed) executed twice in fresh interpreters, with different
neighbours in the worker (position first / last, different worker grouping), must give identical trace digests."""
import os
import shutil

from . import cli
from .prng import derive


def determinism(props, seed, opts):
    nseeds = int(opts.get("seeds", 48))
    hashseeds = [0, 1, 7, 12345]
    rc = 0
    for prop in props:
        workdir = os.path.join(cli.VERIF, ".work", f"selftest-{prop}-{os.getpid()}")
        shutil.rmtree(workdir, ignore_errors=True)
        os.makedirs(workdir, exist_ok=True)
        runseeds = [derive(seed, prop, "selftest", i) % (2**53) for i in range(nseeds)]
        jobs = []
        # layout A: one worker per hashseed runs all seeds in order
        # layout B: four workers per hashseed run interleaved quarters in reverse order
        for hs in hashseeds:
            items = [{"idx": i, "runseed": rs} for i, rs in enumerate(runseeds)]
            base = {"mode": "explore", "prop": prop, "tier": "quick", "shrink": False, "replay_dir": os.path.join(workdir, "rp"), "run_timeout": 300}
            jobs.append((f"A-{hs}", hs, dict(base, runs=items)))
            for q in range(4):
                part = list(reversed(items[q::4]))
                jobs.append((f"B-{hs}-{q}", hs, dict(base, runs=part)))
        done, bad = cli.run_pool(jobs, workdir, 3600)
        if bad:
            print(f"[selftest] {prop}: worker problems {bad}")
            rc = 2
        table = {}
        for name, recs in done.items():
            layout, hs = name.split("-")[0], name.split("-")[1]
            for r in recs:
                if r.get("type") != "run":
                    continue
                if r.get("harness_error"):
                    print(f"[selftest] {prop}: harness error in {name}: {r['harness_error'][-400:]}")
                    rc = 2
                    continue
                table.setdefault((hs, r["runseed"]), {})[layout] = (r.get("digest"), r.get("order"), len(r.get("failures", [])))
        diverged = [(k, v) for k, v in sorted(table.items()) if len(v) != 2 or v.get("A") != v.get("B")]
        cross = {}
        for (hs, rs), v in table.items():
            cross.setdefault(rs, set()).add(v.get("A", (None,))[0])
        hash_dependent = sum(1 for rs, ds in cross.items() if len(ds) > 1)
        print(f"[selftest] {prop}: {len(table)} (hashseed, runseed) pairs x 2 layouts; diverged={len(diverged)}; "
              f"runseeds whose trace depends on the hash seed: {hash_dependent}/{len(cross)}")
        for k, v in diverged[:5]:
            print("   DIVERGED", k, v)
        if diverged:
            rc = rc or 1
        shutil.rmtree(workdir, ignore_errors=True)
    return rc
