"""Run context, trace digests, and the scenario registry."""
import hashlib
import importlib
import json
import traceback
from collections import Counter

CLAIMED = ["C01", "C02", "C03", "C04", "C06", "C07", "C09", "C10", "C11", "C12", "C13", "C14", "C15", "C16", "C17"]


def scenario(prop):
    return importlib.import_module(f"pgmsim.scenarios.{prop.lower()}")


def jdump(x):
    return json.dumps(x, sort_keys=True, default=_default, separators=(",", ":"))


def _default(o):
    try:
        import numpy as np

        if isinstance(o, np.integer):
            return int(o)
        if isinstance(o, np.floating):
            return float(o)
        if isinstance(o, np.ndarray):
            return o.tolist()
    except Exception:
        pass
    if isinstance(o, (set, frozenset)):
        return sorted(repr(x) for x in o)
    if isinstance(o, tuple):
        return list(o)
    return repr(o)


class Ctx:
    """Everything one simulated run records.  Never draws from a PRNG, never reads a clock."""

    def __init__(self, prop, tier="quick"):
        self.prop = prop
        self.tier = tier
        self.events = []
        self.failures = []
        self.faults = Counter()
        self.probes = Counter()
        self.order_sig = []
        self.steps = 0
        self.checked = 0  # non-trivial checked steps
        self.step_no = -1
        self.sims = Counter()
        self.xdig = {}  # answers that must not depend on the process hash seed: key -> digest (compared across worker processes)

    def xanswer(self, key, obj):
        """Record an answer that has to be identical in every process, whatever its PYTHONHASHSEED (obj: canonical, made of
        ints / strings / lists only - never floats).  Keys are numbered per run in order of recording."""
        k = f"{key}#{sum(1 for x in self.xdig if x.split('#')[0] == key)}"
        self.xdig[k] = hashlib.sha256(jdump(obj).encode()).hexdigest()[:20]

    def event(self, *items):
        self.events.append(list(items))

    def sig_order(self, *items):
        self.order_sig.append(list(items))

    def fault(self, kind, n=1):
        self.faults[kind] += n

    def probe(self, name, n=1):
        self.probes[name] += n

    def fail(self, clause, sig, detail, step=None):
        if step is None:
            step = self.step_no
        self.failures.append({"clause": clause, "sig": sig, "detail": detail, "step": step})
        self.event("FAIL", clause, sig, step)

    def digest(self):
        return hashlib.sha256(jdump(self.events).encode()).hexdigest()[:24]

    def order_digest(self):
        return hashlib.sha256(jdump(self.order_sig).encode()).hexdigest()[:16]

    def summary(self):
        return {
            "digest": self.digest(),
            "order": self.order_digest(),
            "steps": self.steps,
            "checked": self.checked,
            "faults": dict(self.faults),
            "probes": dict(self.probes),
            "failures": self.failures,
            "xdig": self.xdig,
        }


class HarnessError(Exception):
    pass


def exc_brief(e, limit=3):
    tb = traceback.extract_tb(e.__traceback__)
    frames = [f"{fr.filename.split('/')[-1]}:{fr.lineno}:{fr.name}" for fr in tb[-limit:]]
    return f"{type(e).__name__}: {str(e)[:300]} @ {' < '.join(reversed(frames))}"


def exc_site(e):
    """Innermost frame inside pgmpy (file:function), stable across line edits."""
    tb = traceback.extract_tb(e.__traceback__)
    for fr in reversed(tb):
        if "/pgmpy/" in fr.filename:
            return f"{fr.filename.split('/pgmpy/')[-1]}:{fr.name}"
    if tb:
        # no pgmpy frame at all: the exception was raised by the scenario's own code (or by a library it called directly) -
        # a defect of the harness, never a violation (the worker turns such records into harness errors, exit 2)
        fr = tb[-1]
        return f"HARNESS:{fr.filename.split('/')[-1]}:{fr.name}"
    return "?"


def run_case(prop, case, tier="quick"):
    """Execute one explicit case against the real code.  Returns the Ctx."""
    from . import seams

    sc = scenario(prop)
    ctx = Ctx(prop, tier)
    seams.reset_environment()
    ctx.event("case", hashlib.sha256(jdump(case).encode()).hexdigest()[:16])
    try:
        sc.execute(case, ctx)
    finally:
        seams.reset_environment()
    return ctx
