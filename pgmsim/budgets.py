"""pgmpy-free tables used by the parent: run budgets and evidence metadata per property."""

_COMMON_COMPONENTS = {
    "real": ["pgmpy (working tree of /repo)", "numpy", "pandas", "networkx", "pyparsing", "opt_einsum", "torch (cpu)"],
    "stub": ["joblib executor (SimParallel: batching / batch order / pickle isolation)", "file system under /simfs (SimFS)",
             "global numpy RNG state manager", "progress bars (off)"],
}

_COMMON_ASSUMPTIONS = [
    "a clean batch is evidence, not proof: worlds are bounded (see rule) and hash seeds are sampled, one per worker process",
    "reference models (brute-force joint / counting / graph predicates in pgmsim/refmodel.py) are trusted",
    "numeric comparison by named assignment with |a-b| <= 1e-9 + 1e-7|b|",
    "real loky worker processes are not started; the SimParallel stub performs only schedules joblib can legally produce",
]

BUDGETS = {
    "C01": {"quick": {"procs": 32, "runs": 200}, "thorough": {"procs": 256, "runs": 1500}},
    "C02": {"quick": {"procs": 32, "runs": 20}, "thorough": {"procs": 256, "runs": 250}},
    "C03": {"quick": {"procs": 32, "runs": 250}, "thorough": {"procs": 256, "runs": 480}},
    "C04": {"quick": {"procs": 32, "runs": 800}, "thorough": {"procs": 256, "runs": 2500}},
    "C06": {"quick": {"procs": 32, "runs": 40}, "thorough": {"procs": 192, "runs": 240}},
    "C07": {"quick": {"procs": 32, "runs": 50, "common": 8}, "thorough": {"procs": 192, "runs": 150, "common": 12}},
    "C09": {"quick": {"procs": 32, "runs": 6}, "thorough": {"procs": 256, "runs": 15}},
    "C10": {"quick": {"procs": 32, "runs": 80}, "thorough": {"procs": 192, "runs": 250}},
    "C11": {"quick": {"procs": 32, "runs": 40}, "thorough": {"procs": 192, "runs": 100}},
    "C12": {"quick": {"procs": 32, "runs": 300}, "thorough": {"procs": 256, "runs": 1500}},
    "C13": {"quick": {"procs": 32, "runs": 250}, "thorough": {"procs": 192, "runs": 2500}},
    "C14": {"quick": {"procs": 32, "runs": 250}, "thorough": {"procs": 256, "runs": 2000}},
    "C15": {"quick": {"procs": 32, "runs": 300}, "thorough": {"procs": 256, "runs": 2000}},
    "C16": {"quick": {"procs": 32, "runs": 120}, "thorough": {"procs": 256, "runs": 360}},
    "C17": {"quick": {"procs": 32, "runs": 100}, "thorough": {"procs": 192, "runs": 600}},
}


def _m(rule, explanation, probes=(), extra_assumptions=()):
    return {"rule": rule, "explanation": explanation, "expected_probes": list(probes),
            "components": _COMMON_COMPONENTS, "assumptions": _COMMON_ASSUMPTIONS + list(extra_assumptions)}


META = {
    "C01": _m(
        "one evaluation = one simulated run: a PRNG-drawn Bayesian-network world (<=6 variables quick / <=8 thorough, "
        "cardinality 1..4, zeros / one-hot columns, str/int/tuple labels, default/str/int/mixed state names) realised in a "
        "PRNG-chosen insertion order under the worker's PYTHONHASHSEED, then 2..8 operations (VariableElimination.query with "
        "elimination_order in {greedy, 4 heuristics, explicit permutation, None} x joint, hard and virtual evidence of positive "
        "probability; get_state_probability; predict_probability).  Non-trivial = at least one operation was executed and compared "
        "with the brute-force joint; distinct = distinct SHA-256 trace digest (world, orders, ops, outcomes).",
        "faults for this property are schedule perturbations (relabel -> hash order, insertion order, option point, virtual-evidence "
        "rebinding); no I/O or worker seam is touched by the anchored code",
        ["order_greedy", "order_none", "order_explicit", "order_minfill", "order_minneighbors", "order_minweight",
         "order_weightedminfill", "evidence_on_ancestor", "evidence_on_descendant", "virtual_evidence", "card1_variable", "zero_cell"],
    ),
    "C15": _m(
        "one evaluation = one edit history (5..30 ops quick, ..60 thorough) on one model kind (BayesianNetwork incl. DAG construction 60%, "
        "DynamicBayesianNetwork 20%, JunctionTree 10%, MarkovNetwork 10%) over a universe of <=6 labelled variables; up to 3 live models "
        "(copies, do()/get_random_cpds results) are edited in turn; a PRNG-chosen share of ops carries invalid arguments (cycle-closing "
        "edge, self-loop, absent node, CPD on unknown variable, stale parents, non-CPD object, backward / multi-slice DBN edge, clique edge "
        "without sepset or closing a cycle).  Non-trivial = at least one op executed and checked; distinct = distinct trace digest.",
        "faults = refused operations placed at arbitrary points of the history (reject_op counts the refusals that actually happened), "
        "relabelling (hash order) and RNG reseeding before get_random_cpds",
        [],
    ),
    "C16": _m(
        "one evaluation = one simulated run of one monitor: PURITY (3..8 calls from a menu of 41 inference / scoring / estimation / search / export / "
        "conversion / sampling calls, deep canonical snapshots of every argument before and after), HISTORY (3..12 questions incl. virtual evidence, "
        "refused questions and repeats put to one shared VariableElimination or BeliefPropagation engine; after every step the same question goes to a "
        "fresh engine on a freshly built model) or TWIN (3..8 questions answered under two representations: other labels incl. int / tuple, renamed and "
        "reordered states, other insertion orders, numpy vs torch).  Worlds: <=5 (6) variables, cardinality <=4.  Non-trivial = at least one checked step; "
        "distinct = distinct trace digest.",
        "faults: engine_reject_probe (refused question in the middle of a history), virtual_evidence_rebind, twin_config, backend_config, relabel, "
        "insertion_permute.  The hash-seed dimension of the property is covered by running all three monitors under every worker's PYTHONHASHSEED against "
        "hash-independent reference values (fresh engine / twin / brute-force joint).",
        ["same_question_twice", "bad_question_refused"],
    ),
    "C02": _m(
        "one evaluation = one simulated run: a connected world of one of four kinds (Bayesian network 36%, Markov network 27% with optional "
        "triangulate(H1..H6, inplace) first, factor graph 18%, junction tree built by the simulator with permuted clique tuples / edge order / "
        "potential scopes 18%), <=6 variables (7 thorough), realised in PRNG-chosen insertion orders under the worker's hash seed; 2..7 steps from "
        "{calibrate, max_calibrate, query(joint both ways, evidence by state name, virtual evidence on BNs)} on a shared or per-step engine.  Clique and "
        "sepset beliefs are compared (proportionally) with the marginals / max-marginals of the brute-force joint, adjacent cliques with their sepset, "
        "query answers with the exact conditional.  Non-trivial = at least one checked step; distinct = distinct trace digest; the observed clique "
        "layout (cliques + tree edges in logical names) is the order signature.",
        "faults: relabel / insertion_permute (hash-order scheduler), triangulation heuristic knob (option_swarm), virtual_evidence_rebind; half of the "
        "runs reuse one engine for all steps",
        ["multi_clique_tree", "evidence_in_several_cliques"],
    ),
    "C03": _m(
        "one evaluation = one simulated run: a Bayesian-network (70%) or connected Markov-network (30%) world, <=6 variables (7 thorough), built in "
        "PRNG-chosen insertion orders under the worker's hash seed, then 2..7 MAP operations: VariableElimination.map_query with elimination_order in "
        "{default, 4 heuristics, explicit permutation, None}, BeliefPropagation.map_query, hard and virtual evidence of positive probability, and "
        "BayesianNetwork.predict(algo in {VE, BP}, n_jobs in {1, 2, -1}) on 1..8 rows under the SimParallel stub.  Oracle: the returned assignment "
        "covers exactly the requested variables, uses valid state names and attains the maximum of the brute-force posterior (ties free).  "
        "Non-trivial = at least one checked operation; distinct = distinct trace digest.",
        "faults: relabel / insertion_permute (hash order), option_swarm, virtual_evidence_rebind, worker_batching / worker_reorder / worker_isolation "
        "inside predict",
        ["tie_in_posterior", "order_none", "order_explicit", "order_default"],
    ),
    "C14": _m(
        "one evaluation = one simulated run: a Bayesian-network (36%), Markov-network (45%, with a PRNG-chosen rate of repeated value-equal factors and "
        "unary factors; connected in 70% of runs) or factor-graph (18%) world of <=6 (7) variables, realised in PRNG-chosen insertion orders under the "
        "worker's hash seed, then 1..4 conversions from {BN->MN, BN->JT, MN->FG, MN triangulate(H1..H6 | explicit order, inplace both ways), MN->JT, "
        "MN partition function, FG->MN, FG->JT, FG partition function}.  Oracle: product of the target's factors equals the source's brute-force "
        "joint cell by cell (hence also the partition function and every factor used exactly once), BN->MN graph equals the moral graph, triangulation is a "
        "chordal supergraph (maximum-cardinality-search test), junction trees are connected trees whose cliques cover every factor scope with the "
        "running-intersection property and one potential per clique.  Non-trivial = at least one checked conversion; distinct = distinct trace digest.",
        "faults: relabel / insertion_permute (hash-order scheduler), heuristic / order knob (option_swarm)",
        ["equal_factors_present", "unary_factor_present", "fill_in_added", "disconnected_tree_refused"],
    ),
    "C09": _m(
        "one evaluation = one simulated run: a Bayesian network (80%; identifier names with a PRNG-chosen share containing format keywords, "
        "cardinalities 1..4, 0..5 parents in permuted declared order, entries down to 1e-12 and exact 0/1, a share of tables above 1000 entries) or a "
        "Markov network (20%, UAI only, factor values over 12 magnitudes), then 1..3 round trips with format in {BIF, XMLBIF, UAI, NET} and route in "
        "{str(Writer)->Reader(string=), write_*/Reader(path=) on the simulated file system, BayesianNetwork.save/load}; the BIF reader runs under the "
        "SimParallel stub (n_jobs in {1,2,-1}).  File routes first run fault-free (content on the simulated disk must equal str(Writer); all routes must "
        "agree), then 1..3 injected faults (ENOSPC/EIO at a PRNG-chosen open / write / close of the save, open / read of the load).  Oracle: same "
        "variables, edges and state names as strings (UAI: any cardinality-preserving positional bijection) and every conditional table equal by named "
        "assignment, relative 1e-12 (NET: absolute 5e-5).  Non-trivial = at least one checked round trip; distinct = distinct trace digest.",
        "faults: io_open_error / io_write_error / io_close_error / io_read_error fired inside save and load calls (an acknowledged save must leave the "
        "complete file, a failed one must raise, a retry must succeed, a failed read must never yield a wrong model), worker_batching / worker_reorder / "
        "worker_isolation in the BIF reader, relabel (hash order: the UAI reader builds parent order from a set).  Not injected: torn writes (Python's text "
        "layer completes a write or raises; the property says nothing about files a crash left incomplete).",
        ["table_over_1000_entries", "keyword_in_name", "tiny_probability", "card1_variable", "three_or_more_parents"],
    ),
    "C06": _m(
        "one evaluation = one simulated run: a Bayesian-network world of <=5 variables (cardinality 1..4, string or integer state names, 0..3 parents in "
        "permuted declared order), 1..60 rows drawn from it by the simulator's own PRNG (so unseen parent configurations and declared-but-unobserved states "
        "occur), then 1..3 learning operations: MLE or Bayesian (K2 / BDeu with random ess / Dirichlet with scalar or per-state pseudo-counts) through the "
        "estimator or model.fit, weighted rows, state names declared or inferred; fit_update after a first fit; EM with 0..2 latent variables, seeds, "
        "init_cpds, max_iter = 1..K re-run from scratch, batch_size in {1,2,3,7,1000}; every call under the SimParallel stub (n_jobs in {1,2,-1}).  Oracle: "
        "pure-Python counts and closed forms aligned by state name; fitted network validates; same tables after permuting rows / columns / edge insertion; "
        "EM: brute-force observed-data log-likelihood non-decreasing in k (iterates with entries < 1e-8 excluded: the implementation floors likelihood terms at "
        "1e-10), same parameters under another batch size / worker schedule, equal to MLE without latents.  Non-trivial = at least one checked operation.",
        "faults: worker_batching / worker_reorder / worker_isolation (SimParallel), batch_knob (EM batch smaller than the number of distinct rows), relabel, "
        "insertion_permute",
        ["unseen_parent_configuration", "declared_state_unobserved", "em_iterations", "fit_update_multi_parent"],
    ),
    "C10": _m(
        "one evaluation = one simulated run: <=5 columns of 1..40 rows drawn from a PRNG-chosen network (sparse: unobserved parent configurations and "
        "declared-but-unobserved states occur; state names declared or inferred), one equivalent sample size, one ScoreCache capacity from {1,2,3,5,10000}, "
        "then a history of 4..16 (40 thorough) calls: local_score(variable, parents) with repeats / permuted parent lists / interleaved variables against the "
        "cache, the uncached scorer and a scorer on row- and column-permuted data; score(model) and the structure_score wrapper on random DAGs; covered-edge "
        "reversals (Markov-equivalent pairs) for BDeu / BIC / AIC.  Oracle: closed forms of K2, BDeu, BDs (Scutari 2016), BIC, AIC computed from raw counts with "
        "math.lgamma / math.log.  Non-trivial = at least one checked call; distinct = distinct trace digest.",
        "faults: cache_knob (capacity below the number of distinct keys, so the eviction path runs), relabel.  The scores themselves are pure functions; "
        "the simulated part is the cache's state across the call history.",
        ["unobserved_parent_configuration", "declared_state_unobserved", "equivalent_pair", "cache_eviction_possible"],
    ),
    "C11": _m(
        "one evaluation = one simulated run: 2..4 (5 thorough) discrete columns of 8..120 rows drawn from a PRNG-chosen network, then 1..3 searches: "
        "HillClimbSearch.estimate over an option swarm (score in {k2,bdeu,bic,aic} as name or scorer instance, start DAG, fixed / black / white lists, max_indegree, "
        "tabu_length incl. 0, epsilon, max_iter, use_cache with the internal LRU capacity forced to {1,3,10000}); ExhaustiveSearch (<=4 columns); TreeSearch "
        "(chow-liu / tan, weights in {mutual_info, normalized_mutual_info, a callable}, 1..3 estimate() calls on one estimator object) under the SimParallel stub.  "
        "Oracle with a reference scorer (closed forms from counts): result is a DAG on exactly the columns, fixed edges kept, no black-listed / only white-listed "
        "additions, in-degree bound, score >= score(start + fixed), with tabu_length=0 and a non-binding max_iter no legal single-edge move gains >= epsilon "
        "(exhaustive enumeration of moves); exhaustive result attains the maximum over all DAGs; trees are spanning, directed away from the root, of maximum total "
        "weight on the reference mutual-information matrix (only data with strictly positive pairwise weights).  Hill climbing's tie-breaking follows set iteration "
        "order, so labels x hash seed explore different climbs.  Non-trivial = at least one checked search.",
        "faults: option_swarm, cache_knob (eviction path of the score cache inside the search), worker_batching / worker_reorder / worker_isolation (TreeSearch), "
        "relabel",
        ["hill_moved", "hill_local_optimum_checked", "tree_estimator_reused"],
    ),
    "C12": _m(
        "one evaluation = one simulated run: a ground-truth DAG on 2..6 string-labelled nodes, then 1..3 operations: PC.estimate with variant in "
        "{orig, stable, parallel}, exact independence information given either as the full list of true pairwise statements (independence_match) or as a callable "
        "d-separation oracle (with a PRNG-chosen column order), max_cond_vars = n, return_type in {skeleton, pdag, cpdag, dag}, under the SimParallel stub; or "
        "PDAG.to_dag on the CPDAG of a random DAG, on a further oriented version of it, or on an arbitrary PDAG over its skeleton (only PDAGs with a consistent "
        "extension by brute force).  Oracle: skeleton equals the DAG's and every stored separating set d-separates; pdag/cpdag equals the brute-force CPDAG (all "
        "DAGs with the same skeleton and v-structures); dag result acyclic with the same skeleton and v-structures; to_dag result acyclic, same skeleton, all "
        "directed edges kept, no new v-structure.  Non-trivial = at least one checked operation; distinct = distinct trace digest.",
        "faults: relabel (hash order drives pair visiting and rule firing order), option_swarm, worker_batching / worker_reorder / worker_isolation (parallel variant)",
        ["non_cpdag_pdag_extended"],
    ),
    "C04": _m(
        "one evaluation = one simulated run: a universe of 5 labelled variables (cardinality 1..3; int / str / tuple labels; default / str / int / mixed / tuple state "
        "names), a pool of 4 live factors with PRNG-chosen scopes and axis orders (zeros at a PRNG-chosen rate), numpy or torch backend, then a history of 4..14 "
        "(40 thorough) operations: product / sum / divide (method or operator, in-place or out-of-place), marginalize / maximize (incl. emptying the scope), reduce by "
        "state name, normalize, scalar * and +, copy, factor_product / factor_divide / factor_sum_product, == against an axis- and state-permuted twin, a twin "
        "perturbed beyond tolerance and a twin with another state name, and refused operations (divide by a non-sub-scope, marginalize / reduce an absent variable).  "
        "After EVERY step every pool member is compared with its reference twin (sorted scope + array, textbook pointwise definitions, 0/0 -> 0, x/0 -> inf) by named "
        "assignment, plus cardinality vs value-shape vs state-name consistency.  Non-trivial = at least one checked step.",
        "faults: reject_op (refused operations inside the history), backend_config (torch), relabel (hash order decides the scope order of product and sum "
        "results).  No environment fault applies to in-memory algebra.",
        ["scope_emptied"],
    ),
    "C07": _m(
        "one evaluation = one simulated run: a Bayesian-network world of <=5 variables (cardinality <=3, zeros, str or int labels, default / str / int state names, a "
        "latent set in 40% of runs), one BayesianModelSampling object shared by all steps in 60% of runs, then 2..5 steps from {forward_sample (with partial samples), "
        "rejection_sample (evidence probability down to 0.02: several adaptive batches), likelihood_weighted_sample, Gibbs transition kernels, Gibbs sample, "
        "BayesianNetwork.simulate with do / evidence / virtual evidence, forward law on 20000 (100000 thorough) rows, rejection law on 4000 (20000) rows}.  Every seeded "
        "call runs twice with the process-global numpy RNG reseeded before and perturbed (reseeded or consumed) in between; frames must be identical.  Exact oracle per "
        "row: column set (latents only on request), row count, valid state names, P(cell | sampled parents) > 0, evidence / do columns fixed, likelihood weight = product "
        "of evidence CPD entries, Gibbs kernel = full conditional of the brute-force joint for every configuration of positive probability.  Law oracle: for every "
        "family cell with >= 200 rows |p_hat - p| <= sqrt(ln(2/1e-12)/(2m)) (Hoeffding; false-alarm probability per cell 1e-12, seeds fixed so the outcome repeats).  "
        "Non-trivial = at least one checked step.",
        "faults: rng_perturb (global numpy RNG reseeded / consumed between and around calls), rare_evidence (rejection loop forced through several batches), "
        "virtual_evidence_rebind, relabel.  The frequency-law clause is decided statistically with a stated error budget; every other clause exactly.",
        ["partial_samples", "law_cells_tested"],
    ),
    "C13": _m(
        "one evaluation = one simulated run: a Bayesian-network world of 2..5 (6 thorough) string-labelled variables (cardinality 2..3, one latent variable in 30% of "
        "runs), one CausalInference object serving a history of 2..6 operations: BayesianNetwork.do (1..2 nodes, in-place or not, followed by further interventions on "
        "result and original), CausalInference.query(variables, do) with 1..2 do-variables, default or a PRNG-chosen valid adjustment set, VE or BP back-end, refused "
        "queries in between; is_valid_backdoor_adjustment_set / is_valid_adjustment_set on candidate sets of non-descendants, get_all_backdoor_adjustment_sets, "
        "front-door tests (singleton sets), get_minimal_adjustment_set.  Oracle: do() removes exactly the incoming edges, intervened CPDs are parent-free distributions, all "
        "other CPDs and the original model are untouched; every query equals the truncated-factorisation joint marginalised to the query variables; criteria by "
        "d-separation on the mutilated graph / enumeration of directed paths.  Non-trivial = at least one checked operation; distinct = distinct trace digest.",
        "faults: reject_op (refused query inside the history), relabel (the adjustment set is iterated as a set), back-end swarm.  The truncated factorisation and "
        "criteria are by-products of the reference model; the simulated part is the engine history inside and across queries.",
        ["multiple_do_variables", "parent_child_do_pair", "refused_query_raised"],
    ),
    "C17": _m(
        "one evaluation = one simulated run: a two-slice template of 1..3 variables per slice (cardinality 2..3, random intra-slice DAG, inter-slice edges in three styles: "
        "persistence X_t -> X_t+1, persistence plus cross edges, arbitrary), tables with exact zeros / deterministic columns at a PRNG rate, built in PRNG-chosen edge / CPD insertion orders; ONE DBNInference "
        "object answers 1..4 questions (query = smoothing, forward_inference = filtering, backward_inference) on variables in slices 0..3 (4 thorough) with 0..3 evidence "
        "items anywhere incl. interface nodes, then get_constant_bn.  Templates outside the domain of the interface algorithm (a variable missing from the 1.5-slice "
        "network, disconnected slice graphs) are counted and skipped.  Oracle: brute-force joint of the network unrolled to the needed number of slices (<= 70000 cells); "
        "the constant network's CPDs equal the template's.  Strict everywhere except the two open smoothing findings (answers below another queried slice s >= 1; evidence on a forward-interface variable).  Non-trivial = at least one checked question; distinct = distinct trace digest; order signature = cliques of "
        "the 1.5-slice junction tree.",
        "faults: relabel / insertion order (hash-order-driven junction-tree layout and _get_clique(...)[0]), one engine reused for the whole history",
        ["interface_nodes_1", "interface_nodes_2"],
    ),
}
