"""pgmsim: seeded deterministic simulation with fault injection for pgmpy (see /verif/DESIGN.md)."""
