"""Logical world -> real pgmpy objects (built through the public API in PRNG-chosen insertion orders),
plus canonical, address-free views of pgmpy objects keyed by logical names."""
import numpy as np

from .world import dec, enc


def to_np(x):
    from pgmpy.utils import compat_fns

    return np.asarray(compat_fns.to_numpy(x), dtype=float)


class Names:
    """Bidirectional maps between logical indices and real labels / state names of one world."""

    def __init__(self, world):
        self.n = world["n"]
        self.labels = [dec(x) for x in world["labels"]]
        self.lab2idx = {lab: i for i, lab in enumerate(self.labels)}
        self.states = []
        for v in range(self.n):
            st = world["states"][v]
            if st is None:
                self.states.append(list(range(world["card"][v])))
            else:
                self.states.append([dec(s) for s in st])

    def L(self, v):
        return self.labels[v]

    def S(self, v, s):
        return self.states[v][s]

    def state_index(self, v, name):
        for i, s in enumerate(self.states[v]):
            if type(s) is type(name) and s == name:
                return i
        for i, s in enumerate(self.states[v]):
            if s == name:
                return i
        raise KeyError((v, name))

    def ev(self, evidence):
        return {self.L(int(v)): self.S(int(v), int(s)) for v, s in (evidence or {}).items()}


def make_cpd(world, names, v, parent_order=None):
    from pgmpy.factors.discrete import TabularCPD

    ps = list(world["parents"][v]) if parent_order is None else list(parent_order)
    card = world["card"]
    table = np.asarray(world["tables"][v], dtype=float)
    if parent_order is not None and ps != list(world["parents"][v]):
        orig = list(world["parents"][v])
        t = table.reshape([card[v]] + [card[p] for p in orig])
        perm = [0] + [1 + orig.index(p) for p in ps]
        table = np.transpose(t, perm).reshape(card[v], -1)
    kw = {}
    scope = [v] + ps
    if any(world["states"][u] is not None for u in scope):
        kw["state_names"] = {names.L(u): list(names.states[u]) for u in scope}
    if ps:
        return TabularCPD(names.L(v), card[v], table.tolist(), evidence=[names.L(p) for p in ps],
                          evidence_card=[card[p] for p in ps], **kw)
    return TabularCPD(names.L(v), card[v], table.tolist(), **kw)


def build_bn(world, config=None, names=None, cls=None):
    from pgmpy.models import BayesianNetwork

    cls = cls or BayesianNetwork
    names = names or Names(world)
    n = world["n"]
    edges = [(p, v) for v in range(n) for p in world["parents"][v]]
    if config is None:
        config = {"node_order": list(range(n)), "edge_order": edges, "cpd_order": list(range(n)),
                  "nodes_first": True, "ctor_edges": False}
    eo = [tuple(e) for e in config["edge_order"]]
    lat = [names.L(v) for v in world.get("latents", [])]
    if config.get("ctor_edges"):
        m = cls([(names.L(a), names.L(b)) for a, b in eo], latents=set(lat)) if lat else cls([(names.L(a), names.L(b)) for a, b in eo])
        for v in config["node_order"]:
            if names.L(v) not in m.nodes():
                m.add_node(names.L(v))
    else:
        m = cls(latents=set(lat)) if lat else cls()
        if config.get("nodes_first"):
            for v in config["node_order"]:
                m.add_node(names.L(v))
        for a, b in eo:
            m.add_edge(names.L(a), names.L(b))
        for v in config["node_order"]:
            if names.L(v) not in m.nodes():
                m.add_node(names.L(v))
    cpds = [make_cpd(world, names, v) for v in config["cpd_order"]]
    if cpds:
        m.add_cpds(*cpds)
    return m


def build_mn(world, names=None, factor_order=None, edge_order=None):
    from pgmpy.factors.discrete import DiscreteFactor
    from pgmpy.models import MarkovNetwork

    names = names or Names(world)
    m = MarkovNetwork()
    for v in range(world["n"]):
        m.add_node(names.L(v))
    es = world["edges"] if edge_order is None else edge_order
    for a, b in es:
        m.add_edge(names.L(a), names.L(b))
    fs = []
    idxs = range(len(world["factors"])) if factor_order is None else factor_order
    for i in idxs:
        fs.append(make_factor(world, names, world["factors"][i]))
    m.add_factors(*fs)
    return m


def make_factor(world, names, f):
    from pgmpy.factors.discrete import DiscreteFactor

    sc = f["scope"]
    kw = {}
    if any(world["states"][u] is not None for u in sc):
        kw["state_names"] = {names.L(u): list(names.states[u]) for u in sc}
    return DiscreteFactor([names.L(u) for u in sc], [world["card"][u] for u in sc], list(f["values"]), **kw)


# --------------------------------------------------------------------------------------------------
# canonical views
# --------------------------------------------------------------------------------------------------
class Mismatch(Exception):
    pass


def factor_to_logical(phi, names, expect_vars=None):
    """DiscreteFactor -> (sorted logical vars, array with axes in that order and logical state order).

    Raises Mismatch if the scope / state names are not those of the world."""
    vars_ = list(phi.variables)
    try:
        lv = [names.lab2idx[x] for x in vars_]
    except (KeyError, TypeError):
        raise Mismatch(f"scope has unknown variable(s): {vars_!r}")
    if len(set(lv)) != len(lv):
        raise Mismatch(f"duplicate variables in scope {vars_!r}")
    if expect_vars is not None and sorted(lv) != sorted(expect_vars):
        raise Mismatch(f"scope {sorted(lv)} != requested {sorted(expect_vars)}")
    arr = to_np(phi.values)
    if arr.ndim != len(lv):
        raise Mismatch(f"values ndim {arr.ndim} != {len(lv)} variables")
    for ax, (x, v) in enumerate(zip(vars_, lv)):
        sn = phi.state_names.get(x) if phi.state_names else None
        if sn is None:
            raise Mismatch(f"no state names for {x!r}")
        sn = list(sn)
        want = names.states[v]
        if len(sn) != len(want) or arr.shape[ax] != len(want):
            raise Mismatch(f"cardinality of v{v}: states {sn!r} shape {arr.shape[ax]} want {want!r}")
        try:
            perm = [_index_of(sn, w) for w in want]
        except ValueError:
            raise Mismatch(f"state names of v{v} are {sn!r}, model has {want!r}")
        arr = np.take(arr, perm, axis=ax)
    order = sorted(range(len(lv)), key=lambda i: lv[i])
    arr = np.transpose(arr, order)
    return sorted(lv), arr


def _index_of(lst, w):
    for i, s in enumerate(lst):
        if type(s) is type(w) and s == w:
            return i
    # numpy ints etc.
    for i, s in enumerate(lst):
        try:
            if s == w and not isinstance(s, bool) and not isinstance(w, bool) and isinstance(s, str) == isinstance(w, str):
                return i
        except Exception:
            pass
    raise ValueError(w)


def snapshot_cpd(cpd):
    vals = to_np(cpd.values)
    return {
        "variables": [enc(x) for x in cpd.variables],
        "card": [int(c) for c in cpd.cardinality],
        "values": [round(float(x), 12) for x in vals.ravel()],
        "states": {repr(k): [repr(s) for s in v] for k, v in sorted(cpd.state_names.items(), key=lambda kv: repr(kv[0]))},
    }


def snapshot_bn(m):
    """Content of a BayesianNetwork, independent of list/dict order."""
    cpds = {}
    for c in m.cpds:
        cpds.setdefault(repr(c.variable), []).append(snapshot_cpd(c))
    return {
        "nodes": sorted(repr(x) for x in m.nodes()),
        "edges": sorted(repr(e) for e in m.edges()),
        "latents": sorted(repr(x) for x in getattr(m, "latents", set())),
        "cpds": {k: cpds[k] for k in sorted(cpds)},
    }


def snapshot_factor(phi):
    vals = to_np(phi.values)
    return {
        "variables": [repr(x) for x in phi.variables],
        "card": [int(c) for c in phi.cardinality],
        "values": [round(float(x), 12) for x in vals.ravel()],
        "states": {repr(k): [repr(s) for s in v] for k, v in sorted(phi.state_names.items(), key=lambda kv: repr(kv[0]))},
    }


def make_frame(world, names, rows, columns=None, as_category=None, weights=None, spare_category=False):
    """rows of logical state indices -> DataFrame with real labels / state names.
    str / mixed state names become categorical columns (declared categories = the variable's states),
    int state names stay integer columns (pandas 3 'str' dtype columns are not accepted by pgmpy)."""
    import pandas as pd

    cols = list(range(world["n"])) if columns is None else list(columns)
    data = {}
    for v in cols:
        vals = [names.S(v, r[v]) for r in rows]
        sts = names.states[v]
        all_int = all(isinstance(s, int) for s in sts)
        if all_int and not as_category:
            data[names.L(v)] = pd.Series(vals, dtype="int64")
        else:
            cats = list(sts)
            if spare_category and all(isinstance(x, str) for x in cats):
                # a frame cut out of a bigger one: the dtype still lists a category that occurs in no row
                cats = cats + ["zz_unused_category"]
            data[names.L(v)] = pd.Series(pd.Categorical(vals, categories=cats))
    df = pd.DataFrame(data, columns=[names.L(v) for v in cols])
    if weights is not None:
        df["_weight"] = [float(w) for w in weights]
    return df


def snapshot_frame(df):
    return {"columns": [repr(c) for c in df.columns], "dtypes": [str(t) for t in df.dtypes], "index": [repr(i) for i in df.index],
            "values": [[repr(x) for x in row] for row in df.itertuples(index=False, name=None)]}
