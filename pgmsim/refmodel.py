"""Reference models.  Nothing here imports pgmpy.

RefJoint: dense numpy array over logical variables 0..n-1 (axis i = variable i, index = logical state).
"""
import itertools
import math

import numpy as np

ATOL = 1e-9
RTOL = 1e-7


_SINGLE = [False]


def set_single(flag):
    """Run configuration dtype float32: every comparison allows single-precision rounding (about 7 digits per operation)."""
    _SINGLE[0] = bool(flag)


def is_single():
    return _SINGLE[0]


_TORCH64 = [False]


def set_torch_rounding(flag):
    """torch backend with dtype float64: pgmpy builds every factor through a float32 tensor (known finding, reported by C01), so
    exact answers carry single-precision rounding of their inputs and intermediates; comparisons allow exactly that much."""
    _TORCH64[0] = bool(flag)


def is_torch_rounding():
    return _TORCH64[0]


def close(a, b, atol=ATOL, rtol=RTOL):
    if _SINGLE[0]:
        atol, rtol = max(atol, 2e-5), max(rtol, 2e-3)
    elif _TORCH64[0]:
        atol, rtol = max(atol, 5e-7), max(rtol, 1e-5)
    a = np.asarray(a, dtype=float)
    b = np.asarray(b, dtype=float)
    if a.shape != b.shape:
        return False
    with np.errstate(invalid="ignore"):
        d = np.abs(a - b)
        # an infinite reference cell tolerates only the same infinity (rtol * inf would accept anything)
        ok = np.isfinite(a) & np.isfinite(b) & (d <= atol + rtol * np.abs(b))
    both_inf = np.isinf(a) & np.isinf(b) & (np.sign(a) == np.sign(b))
    both_nan = np.isnan(a) & np.isnan(b)
    return bool(np.all(ok | both_inf | both_nan))


def maxdiff(a, b):
    a = np.asarray(a, dtype=float)
    b = np.asarray(b, dtype=float)
    if a.shape != b.shape:
        return float("inf")
    with np.errstate(invalid="ignore"):
        d = np.abs(a - b)
    d = np.where(np.isnan(a) & np.isnan(b), 0.0, d)
    d = np.where(np.isinf(a) & np.isinf(b) & (np.sign(a) == np.sign(b)), 0.0, d)
    d = np.where(np.isnan(d), np.inf, d)
    return float(d.max()) if d.size else 0.0


class RefJoint:
    def __init__(self, card, arr):
        self.card = list(card)
        self.n = len(card)
        self.arr = np.asarray(arr, dtype=float)
        assert self.arr.shape == tuple(card)

    # ---- constructors --------------------------------------------------------------------------
    @classmethod
    def from_bn(cls, world):
        card = world["card"]
        n = world["n"]
        arr = np.ones(tuple(card), dtype=float)
        for v in range(n):
            arr = arr * cls._bn_factor(world, v)
        return cls(card, arr)

    @staticmethod
    def _bn_factor(world, v):
        """Table of node v broadcastable over all n axes."""
        card = world["card"]
        n = world["n"]
        ps = world["parents"][v]
        t = np.asarray(world["tables"][v], dtype=float).reshape([card[v]] + [card[p] for p in ps])
        axes = [v] + list(ps)
        order = sorted(range(len(axes)), key=lambda i: axes[i])
        t = np.transpose(t, order)
        shape = [1] * n
        for a in axes:
            shape[a] = card[a]
        return t.reshape(shape)

    @classmethod
    def from_factors(cls, card, factors):
        """factors: list of {'scope': [vars], 'values': flat list in row-major order of scope}."""
        n = len(card)
        arr = np.ones(tuple(card), dtype=float)
        for f in factors:
            arr = arr * cls.factor_array(card, f)
        return cls(card, arr)

    @staticmethod
    def factor_array(card, f):
        n = len(card)
        sc = list(f["scope"])
        t = np.asarray(f["values"], dtype=float).reshape([card[v] for v in sc])
        order = sorted(range(len(sc)), key=lambda i: sc[i])
        t = np.transpose(t, order)
        shape = [1] * n
        for a in sc:
            shape[a] = card[a]
        return t.reshape(shape)

    # ---- queries -------------------------------------------------------------------------------
    def weighted(self, evidence=None, virtual=None):
        """Unnormalised array after hard evidence {var: state} (kept as size-1 axes) and
        virtual evidence [(var, [likelihoods])]."""
        arr = self.arr
        if evidence:
            idx = [slice(None)] * self.n
            for v, s in evidence.items():
                idx[int(v)] = slice(int(s), int(s) + 1)
            arr = arr[tuple(idx)]
        if virtual:
            for v, lik in virtual:
                shape = [1] * self.n
                if evidence and (v in evidence or str(v) in evidence):
                    s = evidence.get(v, evidence.get(str(v)))
                    lik = [lik[int(s)]]
                shape[v] = len(lik)
                arr = arr * np.asarray(lik, dtype=float).reshape(shape)
        return arr

    def prob_evidence(self, evidence=None, virtual=None):
        return float(self.weighted(evidence, virtual).sum())

    def marginal_unnorm(self, qvars, evidence=None, virtual=None, op="sum"):
        """Array over qvars (in the given order)."""
        arr = self.weighted(evidence, virtual)
        others = tuple(i for i in range(self.n) if i not in qvars)
        if op == "sum":
            m = arr.sum(axis=others) if others else arr
        else:
            m = arr.max(axis=others) if others else arr
        # remaining axes are sorted(qvars); reorder to requested order
        srt = sorted(qvars)
        perm = [srt.index(q) for q in qvars]
        return np.transpose(m, perm)

    def posterior(self, qvars, evidence=None, virtual=None):
        m = self.marginal_unnorm(qvars, evidence, virtual)
        z = m.sum()
        if z <= 0:
            raise ZeroDivisionError("zero-probability evidence")
        return m / z

    def partition(self):
        return float(self.arr.sum())


def int_evidence(ev):
    """JSON object keys are strings: {'2': 1} -> {2: 1}."""
    return {int(k): int(v) for k, v in (ev or {}).items()}


# --------------------------------------------------------------------------------------------------
# graphs
# --------------------------------------------------------------------------------------------------
def is_acyclic(n_or_nodes, edges):
    nodes = list(range(n_or_nodes)) if isinstance(n_or_nodes, int) else list(n_or_nodes)
    indeg = {v: 0 for v in nodes}
    ch = {v: [] for v in nodes}
    for a, b in edges:
        indeg[b] += 1
        ch[a].append(b)
    stack = [v for v in nodes if indeg[v] == 0]
    seen = 0
    while stack:
        v = stack.pop()
        seen += 1
        for c in ch[v]:
            indeg[c] -= 1
            if indeg[c] == 0:
                stack.append(c)
    return seen == len(nodes)


def has_undirected_cycle(nodes, edges):
    parent = {v: v for v in nodes}

    def find(a):
        while parent[a] != a:
            parent[a] = parent[parent[a]]
            a = parent[a]
        return a

    for a, b in edges:
        ra, rb = find(a), find(b)
        if ra == rb:
            return True
        parent[ra] = rb
    return False


def dsep(n, edges, x, y, z):
    """True iff x and y are d-separated given set z in the DAG (n, edges).  Moral-ancestral method."""
    z = set(z)
    pa = {v: set() for v in range(n)}
    for a, b in edges:
        pa[b].add(a)
    anc = set([x, y]) | z
    stack = list(anc)
    while stack:
        v = stack.pop()
        for p in pa[v]:
            if p not in anc:
                anc.add(p)
                stack.append(p)
    adj = {v: set() for v in anc}
    for v in anc:
        ps = [p for p in pa[v] if p in anc]
        for p in ps:
            adj[v].add(p)
            adj[p].add(v)
        for p, q in itertools.combinations(ps, 2):
            adj[p].add(q)
            adj[q].add(p)
    seen = {x}
    stack = [x]
    while stack:
        v = stack.pop()
        for w in adj[v]:
            if w in z or w in seen:
                continue
            if w == y:
                return False
            seen.add(w)
            stack.append(w)
    return True


def skeleton(edges):
    return {frozenset(e) for e in edges}


def vstructures(n, edges):
    pa = {v: set() for v in range(n)}
    for a, b in edges:
        pa[b].add(a)
    sk = skeleton(edges)
    out = set()
    for c in range(n):
        for a, b in itertools.combinations(sorted(pa[c]), 2):
            if frozenset((a, b)) not in sk:
                out.add((a, c, b))
    return out


def all_dags_same_class(n, edges):
    """All DAGs with the same skeleton and v-structures (brute force over orientations)."""
    sk = sorted(tuple(sorted(e)) for e in skeleton(edges))
    vs = vstructures(n, edges)
    out = []
    for bits in itertools.product([0, 1], repeat=len(sk)):
        es = [(a, b) if bit == 0 else (b, a) for (a, b), bit in zip(sk, bits)]
        if not is_acyclic(n, es):
            continue
        if vstructures(n, es) != vs:
            continue
        out.append(es)
    return out


def cpdag(n, edges):
    """(directed set, undirected set of frozensets) of the Markov equivalence class."""
    members = all_dags_same_class(n, edges)
    sk = sorted(tuple(sorted(e)) for e in skeleton(edges))
    directed = set()
    undirected = set()
    for a, b in sk:
        fw = all((a, b) in m for m in map(set, members))
        bw = all((b, a) in m for m in map(set, members))
        if fw:
            directed.add((a, b))
        elif bw:
            directed.add((b, a))
        else:
            undirected.add(frozenset((a, b)))
    return directed, undirected


def lgamma(x):
    return math.lgamma(x)


# --------------------------------------------------------------------------------------------------
# reference junction tree (own construction; used to hand pgmpy a JunctionTree world)
# --------------------------------------------------------------------------------------------------
def ref_triangulate(n, edges, order=None):
    """Elimination-based triangulation; returns (fill-in edge set incl. originals, elimination cliques)."""
    adj = {v: set() for v in range(n)}
    for a, b in edges:
        adj[a].add(b)
        adj[b].add(a)
    work = {v: set(s) for v, s in adj.items()}
    alive = set(range(n))
    cliques = []
    full = {frozenset(e) for e in edges}
    seq = list(order) if order is not None else []
    while alive:
        if order is not None:
            v = seq.pop(0)
        else:
            # min-fill, ties by index
            def fill(x):
                nb = sorted(work[x])
                return sum(1 for i in range(len(nb)) for j in range(i + 1, len(nb)) if nb[j] not in work[nb[i]])
            v = min(sorted(alive), key=lambda x: (fill(x), x))
        nb = sorted(work[v])
        cliques.append(frozenset([v] + nb))
        for i in range(len(nb)):
            for j in range(i + 1, len(nb)):
                a, b = nb[i], nb[j]
                work[a].add(b)
                work[b].add(a)
                full.add(frozenset((a, b)))
        for u in nb:
            work[u].discard(v)
        del work[v]
        alive.discard(v)
    maximal = [c for c in cliques if not any(c < d for d in cliques)]
    uniq = []
    for c in maximal:
        if c not in uniq:
            uniq.append(c)
    return full, uniq


def ref_junction_tree(n, edges, order=None):
    """(cliques as sorted lists, tree edges as index pairs) with maximal sepsets (Kruskal)."""
    _, cliques = ref_triangulate(n, edges, order)
    cl = [sorted(c) for c in cliques]
    cand = []
    for i in range(len(cl)):
        for j in range(i + 1, len(cl)):
            w = len(set(cl[i]) & set(cl[j]))
            if w > 0:
                cand.append((-w, i, j))
    cand.sort()
    parent = list(range(len(cl)))

    def find(a):
        while parent[a] != a:
            parent[a] = parent[parent[a]]
            a = parent[a]
        return a

    tree = []
    for w, i, j in cand:
        ri, rj = find(i), find(j)
        if ri != rj:
            parent[ri] = rj
            tree.append((i, j))
    return cl, tree


def is_chordal(nodes, edge_sets):
    """Maximum cardinality search test."""
    nodes = list(nodes)
    adj = {v: set() for v in nodes}
    for e in edge_sets:
        a, b = tuple(e)
        adj[a].add(b)
        adj[b].add(a)
    weight = {v: 0 for v in nodes}
    order = []
    unnum = set(nodes)
    while unnum:
        v = max(sorted(unnum, key=repr), key=lambda x: weight[x])
        order.append(v)
        unnum.discard(v)
        for u in adj[v]:
            if u in unnum:
                weight[u] += 1
    pos = {v: i for i, v in enumerate(order)}
    for v in order:
        earlier = [u for u in adj[v] if pos[u] < pos[v]]
        if not earlier:
            continue
        p = max(earlier, key=lambda u: pos[u])
        for u in earlier:
            if u != p and u not in adj[p]:
                return False
    return True
