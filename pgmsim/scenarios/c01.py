"""C01 - exact posterior queries (VariableElimination.query, get_state_probability, predict_probability)
under scheduler-chosen hash order, insertion orders and option points; oracle: brute-force joint."""
import copy
import itertools

import numpy as np

from .. import refmodel, seams, world as W
from ..core import exc_brief, exc_site
from ..prng import shuffled, subset, weighted
from ..realise import Mismatch, Names, build_bn, factor_to_logical, to_np
from ..refmodel import RefJoint, close, int_evidence, maxdiff

PROP = "C01"
HEURISTICS = ["MinFill", "MinNeighbors", "MinWeight", "WeightedMinFill"]


def gen_query(r, world, ref, allow_virtual, max_q=3):
    n = world["n"]
    vs = list(range(n))
    nq = r.randint(1, min(max_q, n))
    q = r.sample(vs, nq)
    rest = [v for v in vs if v not in q]
    ev = {}
    # evidence drawn by the oracle among assignments with P(evidence) > 0
    k = r.choice([0, 0, 1, 1, 2, 3])
    for v in shuffled(r, rest)[:k]:
        cand = shuffled(r, range(world["card"][v]))
        for s in cand:
            trial = dict(ev)
            trial[v] = s
            if ref.prob_evidence(trial) > 1e-13:
                ev = trial
                break
    virt = []
    if allow_virtual and r.random() < 0.3:
        cands = [v for v in vs if v not in ev and v not in q] + ([v for v in q] if r.random() < 0.3 else [])
        for v in shuffled(r, cands)[: r.randint(1, 2)]:
            lik = [r.choice([0.0, 0.1, 0.25, 0.5, 0.9, 1.0]) for _ in range(world["card"][v])]
            if r.random() < 0.25:
                # likelihoods on a small scale (only their ratios matter)
                scale = r.choice([1e-3, 1e-6, 1e-9])
                lik = [x * scale for x in lik]
            if ref.prob_evidence(ev, virt + [(v, lik)]) > 1e-13 * (min([x for x in lik if x > 0] or [1.0])):
                virt.append((v, lik))
    okind = weighted(r, [("greedy", 3), ("heur", 4), ("explicit", 3), ("none", 3)])
    if okind == "greedy":
        order = "greedy"
    elif okind == "heur":
        order = r.choice(HEURISTICS)
        if r.random() < 0.3:
            order = order.lower()
    elif okind == "none":
        order = None
    else:
        order = ["perm", shuffled(r, [v for v in vs if v not in q and v not in ev])]
    return {"api": "query", "q": q, "ev": {str(k): v for k, v in ev.items()}, "virt": [[v, lik] for v, lik in virt],
            "order": order, "joint": r.random() < 0.6}


def generate(streams, tier):
    big = tier == "thorough"
    world = W.gen_bn(streams, max_n=8 if big else 6, max_joint=65536 if big else 4096, max_parents=4 if big else 3)
    config = W.gen_bn_config(streams, world)
    ref = RefJoint.from_bn(world)
    r = streams.s("workload")
    str_labels = isinstance(world["labels"][0], str)
    ops = []
    for _ in range(r.randint(2, 8)):
        kind = weighted(r, [("query", 8), ("state_prob", 1), ("predict_proba", 1 if str_labels else 0)])
        if kind == "query":
            ops.append(gen_query(r, world, ref, allow_virtual=str_labels or r.random() < 0.15))
        elif kind == "state_prob":
            vs = subset(r, range(world["n"]), 0.6) or [0]
            ops.append({"api": "state_prob", "states": {str(v): r.randrange(world["card"][v]) for v in vs}})
        else:
            n = world["n"]
            if n < 2:
                continue
            cols = r.sample(range(n), r.randint(1, n - 1))
            rows = []
            for _ in range(r.randint(1, 4)):
                ev = {}
                for v in cols:
                    for s in shuffled(r, range(world["card"][v])):
                        t = dict(ev)
                        t[v] = s
                        if ref.prob_evidence(t) > 1e-13:
                            ev = t
                            break
                if len(ev) == len(cols):
                    rows.append([ev[v] for v in cols])
            if rows:
                ops.append({"api": "predict_proba", "cols": cols, "rows": rows})
    return {"world": world, "config": config, "ops": ops, "backend": streams.s("config").choice(seams.BACKENDS)}


def describe(case):
    w = case["world"]
    return {"n": w["n"], "card": w["card"], "parents": w["parents"], "labels": w["labels"], "flags": w.get("flags"),
            "ops": [{k: v for k, v in op.items()} for op in case["ops"][:4]]}


def _order_arg(op, names):
    o = op["order"]
    if isinstance(o, list):
        return [names.L(v) for v in o[1]]
    return o


def make_virtual(world, names, virt, as_factor=False):
    from pgmpy.factors.discrete import DiscreteFactor, TabularCPD

    out = []
    for v, lik in virt:
        kw = {}
        if world["states"][v] is not None:
            kw["state_names"] = {names.L(v): list(names.states[v])}
        if as_factor:
            out.append(DiscreteFactor([names.L(v)], [world["card"][v]], list(lik), **kw))
        else:
            out.append(TabularCPD(names.L(v), world["card"][v], [[x] for x in lik], **kw))
    return out


def posterior_problems(names, ref, res, q, ev, virt, joint, what, tol=None):
    """Compare a query result with the oracle.  Returns a list of (clause, signature, detail)."""
    out = []
    try:
        if joint:
            lv, arr = factor_to_logical(res, names, expect_vars=q)
            want = ref.posterior(lv, ev, virt)
            if not close(arr, want, **(tol or {})):
                out.append(("value", f"{PROP}:value:{what}", {"got": arr.round(9).tolist(), "want": want.round(9).tolist(), "maxdiff": maxdiff(arr, want)}))
        else:
            if not isinstance(res, dict):
                raise Mismatch(f"joint=False returned {type(res).__name__}")
            keys = []
            for k in res:
                if k not in names.lab2idx:
                    raise Mismatch(f"unknown key {k!r}")
                keys.append(names.lab2idx[k])
            if sorted(keys) != sorted(q):
                raise Mismatch(f"keys {sorted(keys)} != requested {sorted(q)}")
            for k, phi in res.items():
                v = names.lab2idx[k]
                lv, arr = factor_to_logical(phi, names, expect_vars=[v])
                want = ref.posterior([v], ev, virt)
                if not close(arr, want, **(tol or {})):
                    out.append(("value", f"{PROP}:value:{what}", {"var": v, "got": arr.round(9).tolist(), "want": want.round(9).tolist()}))
    except Mismatch as e:
        out.append(("labels", f"{PROP}:labels:{what}", str(e)))
    return out


TORCH32_SIG = f"{PROP}:value:torch_backend_rounds_values_through_float32"


def through_float32(x):
    return float(np.float32(x))


def world_through_float32(world):
    """The same network with every table entry rounded to single precision and back (what the torch backend stores)."""
    w = copy.deepcopy(world)
    w["tables"] = [[[through_float32(x) for x in row] for row in t] for t in w["tables"]]
    return w


def check_posterior(ctx, names, ref, res, q, ev, virt, joint, what, ref32=None):
    """Records the problems of a query result.  ref32 (torch backend only): explained-by predicate of the known finding
    'values pass through float32' - value mismatches that vanish against the float32-rounded network carry its signature."""
    probs = posterior_problems(names, ref, res, q, ev, virt, joint, what)
    if probs and ref32 is not None and all(c == "value" for c, _, _ in probs):
        virt32 = [(v, [through_float32(x) for x in l]) for v, l in virt]
        if not posterior_problems(names, ref32, res, q, ev, virt32, joint, what):
            ctx.fail("value", TORCH32_SIG, probs[0][2])
            return False
        # the rounding happens at EVERY factor / CPD construction inside the library (pruned CPDs, virtual-evidence nodes ...),
        # so the rounded-input reference is not always matched exactly: deviations within single precision of the true
        # answer are attributed to the same finding, anything larger is a violation
        if not posterior_problems(names, ref, res, q, ev, virt, joint, what, tol={"atol": 5e-7, "rtol": 1e-5}):
            ctx.fail("value", TORCH32_SIG, probs[0][2])
            return False
    for c, sg, d in probs:
        ctx.fail(c, sg, d)
    return not probs


def execute(case, ctx):
    from pgmpy.inference import VariableElimination

    world, config = case["world"], case["config"]
    names = Names(world)
    ref = RefJoint.from_bn(world)
    backend = seams.effective_backend(case.get("backend", "numpy"), [[x for row in t for x in row] for t in world["tables"]])
    seams.set_backend(backend)
    if backend != "numpy":
        ctx.fault("backend_config")
    single = backend.endswith("float32")
    if single:
        ctx.probe("dtype_float32")
    ref32 = RefJoint.from_bn(world_through_float32(world)) if backend == "torch" else None
    model = build_bn(world, config, names)
    model.check_model()
    ctx.sig_order("labels", [names.lab2idx[x] for x in set(names.labels)])
    ctx.fault("relabel")
    ctx.fault("insertion_permute")
    if 1 in world["card"]:
        ctx.probe("card1_variable")
    if any(0.0 in row for t in world["tables"] for row in t):
        ctx.probe("zero_cell")
    for i, op in enumerate(case["ops"]):
        ctx.step_no = i
        ctx.steps += 1
        api = op["api"]
        if api == "query":
            q = list(op["q"])
            ev = int_evidence(op["ev"])
            virt = [(int(v), list(l)) for v, l in op.get("virt", [])]
            if any(v >= world["n"] for v in q + list(ev)) or set(q) & set(ev) or not q:
                continue
            if any(s >= world["card"][v] for v, s in ev.items()):
                continue
            if ref.prob_evidence(ev, virt) <= 1e-13 * min([x for _, l in virt for x in l if x > 0] or [1.0]):
                continue
            if single and (ref.prob_evidence(ev, virt) < 1e-5 or any(0 < x < 1e-3 for _, l in virt for x in l)):
                continue
            order = _order_arg(op, names)
            ctx.fault("option_swarm")
            okind = "explicit" if isinstance(op["order"], list) else str(op["order"]).lower()
            ctx.probe("order_" + okind)
            if ev:
                anc = W.ancestors(world, q)
                des = W.descendants(world, q)
                if set(ev) & anc:
                    ctx.probe("evidence_on_ancestor")
                if set(ev) & des:
                    ctx.probe("evidence_on_descendant")
            if virt:
                ctx.probe("virtual_evidence")
                ctx.fault("virtual_evidence_rebind")
            ctx.event("query", q, sorted(ev.items()), virt, okind, op["joint"])
            try:
                ve = VariableElimination(model)
                kw = {}
                if virt:
                    kw["virtual_evidence"] = make_virtual(world, names, virt, as_factor=(i % 2 == 1))
                res = ve.query([names.L(v) for v in q], evidence=names.ev(ev) or None, elimination_order=order,
                               joint=op["joint"], show_progress=False, **kw)
            except Exception as e:
                nonstr = virt and not isinstance(names.labels[0], str)
                sig = f"{PROP}:raise:{type(e).__name__}:{exc_site(e)}"
                if nonstr and isinstance(e, TypeError) and "_virtual_evidence" in exc_site(e):
                    sig = f"{PROP}:virtual_evidence_nonstr_label"
                ctx.fail("succeeds", sig, exc_brief(e))
                continue
            ctx.checked += 1
            if check_posterior(ctx, names, ref, res, q, ev, virt, op["joint"], "query", ref32=ref32):
                ctx.event("ok")
        elif api == "state_prob":
            st = int_evidence(op["states"])
            if any(v >= world["n"] or s >= world["card"][v] for v, s in st.items()):
                continue
            ctx.event("state_prob", sorted(st.items()))
            try:
                p = float(to_np(model.get_state_probability(names.ev(st))))
            except Exception as e:
                ctx.fail("succeeds", f"{PROP}:raise:{type(e).__name__}:{exc_site(e)}", exc_brief(e))
                continue
            want = ref.prob_evidence(st)
            ctx.checked += 1
            if not close(p, want):
                if ref32 is not None and (close(p, ref32.prob_evidence(st)) or close(p, want, atol=5e-7, rtol=1e-5)):
                    ctx.fail("value", TORCH32_SIG, {"got": p, "want": want, "api": "get_state_probability"})
                else:
                    ctx.fail("value", f"{PROP}:value:state_prob", {"got": p, "want": want})
        elif api == "predict_proba":
            import pandas as pd

            cols = list(op["cols"])
            if any(v >= world["n"] for v in cols) or not isinstance(names.labels[0], str):
                continue
            rows = [r for r in op["rows"] if all(s < world["card"][v] for v, s in zip(cols, r))
                    and ref.prob_evidence(dict(zip(cols, r))) > 1e-13]
            missing = [v for v in range(world["n"]) if v not in cols]
            if not rows or not missing or len(cols) == 0:
                continue
            if any(names.S(v, s) is None for r in rows for v, s in zip(cols, r)):
                # a state named None cannot be told from a missing cell inside a pandas frame: outside the property
                ctx.probe("predict_proba_skipped_none_state_in_frame")
                continue
            df = pd.DataFrame([[names.S(v, s) for v, s in zip(cols, r)] for r in rows], columns=[names.L(v) for v in cols],
                              dtype=object)
            ctx.event("predict_proba", cols, rows)
            try:
                out = model.predict_probability(df)
            except Exception as e:
                ctx.fail("succeeds", f"{PROP}:raise:{type(e).__name__}:{exc_site(e)}", exc_brief(e))
                continue
            ctx.checked += 1
            for ri, r in enumerate(rows):
                ev = dict(zip(cols, r))
                for v in missing:
                    want = ref.posterior([v], ev)
                    for s in range(world["card"][v]):
                        col = names.L(v) + "_" + str(names.S(v, s))
                        if col not in out.columns:
                            ctx.fail("labels", f"{PROP}:labels:predict_proba", f"missing column {col!r}; have {list(out.columns)!r}")
                            break
                        got = float(out[col].iloc[ri])
                        if not close(got, want[s]):
                            if ref32 is not None and (close(got, ref32.posterior([v], ev)[s]) or close(got, want[s], atol=5e-7, rtol=1e-5)):
                                ctx.fail("value", TORCH32_SIG, {"col": col, "row": r, "got": got, "want": float(want[s]), "api": "predict_probability"})
                            else:
                                ctx.fail("value", f"{PROP}:value:predict_proba", {"col": col, "row": r, "got": got, "want": float(want[s])})
                            break


# ---- minimisation passes over the world ------------------------------------------------------------
def shrink_candidates(case):
    w = case["world"]
    n = w["n"]
    if case.get("backend", "numpy") != "numpy":
        c = copy.deepcopy(case)
        c["backend"] = "numpy"
        yield c
    # remove an edge
    for v in range(n):
        for p in list(w["parents"][v]):
            c = copy.deepcopy(case)
            cw = c["world"]
            ps = cw["parents"][v]
            t = np.asarray(cw["tables"][v], dtype=float).reshape([cw["card"][v]] + [cw["card"][u] for u in ps])
            ax = 1 + ps.index(p)
            t = np.take(t, 0, axis=ax)
            ps.remove(p)
            cw["tables"][v] = t.reshape(cw["card"][v], -1).tolist()
            c["config"]["edge_order"] = [e for e in c["config"]["edge_order"] if list(e) != [p, v]]
            for op in c["ops"]:
                if op.get("api") == "query" and isinstance(op.get("order"), list):
                    pass
            yield c
    # simple labels / default states
    if any(not (isinstance(l, str) and l == f"v{i}") for i, l in enumerate(w["labels"])):
        c = copy.deepcopy(case)
        c["world"]["labels"] = [f"v{i}" for i in range(n)]
        yield c
    if any(s is not None for s in w["states"]):
        c = copy.deepcopy(case)
        c["world"]["states"] = [None] * n
        yield c
    # canonical insertion order
    cfg = case["config"]
    canon = {"node_order": list(range(n)), "edge_order": sorted([list(e) for e in cfg["edge_order"]]),
             "cpd_order": list(range(n)), "nodes_first": True, "ctor_edges": False}
    if any(cfg.get(k) != canon[k] for k in canon):
        c = copy.deepcopy(case)
        c["config"] = canon
        yield c
    # uniform tables
    for v in range(n):
        t = np.asarray(w["tables"][v], dtype=float)
        u = np.full_like(t, 1.0 / t.shape[0])
        if not np.allclose(t, u):
            c = copy.deepcopy(case)
            c["world"]["tables"][v] = u.tolist()
            yield c
    # simplify ops
    for i, op in enumerate(case["ops"]):
        if op.get("api") == "query":
            if op.get("virt"):
                c = copy.deepcopy(case)
                c["ops"][i]["virt"] = []
                yield c
            for k in list(op["ev"]):
                c = copy.deepcopy(case)
                del c["ops"][i]["ev"][k]
                if isinstance(c["ops"][i]["order"], list):
                    c["ops"][i]["order"][1].append(int(k))
                yield c
            if len(op["q"]) > 1:
                for v in op["q"]:
                    c = copy.deepcopy(case)
                    c["ops"][i]["q"].remove(v)
                    if isinstance(c["ops"][i]["order"], list):
                        c["ops"][i]["order"][1].append(v)
                    yield c
