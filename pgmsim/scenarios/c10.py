"""C10 - structure scores equal their published definitions.

What is simulated: the LRU ScoreCache is the one stateful component behind the scores; a history of
local_score calls (repeats, permuted parent lists, interleaved variables) runs against caches with a randomised
capacity knob (the default capacity never evicts).  By-product of the reference model: closed forms of
K2 / BDeu / BDs / BIC / AIC from raw counts, score(model) = sum of local scores, Markov-equivalence and
permutation invariances."""
import copy
import math
import random

import numpy as np

from .. import world as W
from ..core import exc_brief, exc_site
from ..prng import shuffled, weighted
from ..realise import Names, make_frame
from ..refmodel import close, is_acyclic, skeleton, vstructures

PROP = "C10"
SCORES = ["k2", "bdeu", "bds", "bic", "aic"]


def generate(streams, tier):
    r = streams.s("kind")
    world = W.gen_bn(streams, max_n=5, min_n=2, max_card=4, max_parents=3, max_joint=1024, force_str_labels="or_int", allow_card1=r.random() < 0.2,
                     state_modes=[("str", 3), ("int_sorted", 2)])
    rd = streams.s("data")
    nrows = rd.choice([1, 2, 4, 8, 15, 25, 40])
    rows = W.gen_rows(rd, world, nrows)
    rw = streams.s("workload")
    n = world["n"]
    declared = rw.random() < 0.7
    ess = rw.choice([1, 2.5, 5, 10, 0.5])
    cache_size = rw.choice([1, 2, 3, 5, 10000])
    ops = []
    pool = []
    for _ in range(rw.randint(3, 8)):
        v = rw.randrange(n)
        ps = rw.sample([u for u in range(n) if u != v], rw.randint(0, min(3, n - 1)))
        pool.append((v, ps))
    for _ in range(rw.randint(4, 40 if tier == "thorough" else 16)):
        k = weighted(rw, [("local", 8), ("score_model", 2), ("equivalent", 2), ("wrapper", 2), ("partial_sn", 1 if n >= 2 and len(rows) >= 2 else 0)])
        if k == "local":
            v, ps = rw.choice(pool)
            ops.append({"op": "local", "score": rw.choice(SCORES), "v": v, "parents": shuffled(rw, ps) if rw.random() < 0.5 else list(ps)})
        elif k == "partial_sn":
            # state names declared for some variables only, ONE dict object handed to two scorers on different row subsets
            v, ps = rw.choice(pool)
            ops.append({"op": "partial_sn", "score": rw.choice(SCORES), "v": v, "parents": list(ps), "declared_vars": rw.sample(range(n), rw.randint(1, n - 1)),
                        "subset": sorted(rw.sample(range(len(rows)), rw.randint(1, len(rows))))})
        elif k == "score_model":
            ops.append({"op": "score_model", "score": rw.choice(SCORES), "dag": _rand_dag(rw, n)})
        elif k == "equivalent":
            ops.append({"op": "equivalent", "score": rw.choice(["bdeu", "bic", "aic"]), "dag": _rand_dag(rw, n), "pick": rw.randrange(1000)})
        else:
            # the metric wrapper is called repeatedly on the one frame object with varying options
            ops.append({"op": "wrapper", "score": rw.choice(["k2", "bdeu", "bdeu", "bds", "bic"]), "dag": _rand_dag(rw, n),
                        "ess": rw.choice([None, None, 1, 2.5, 5, 10, 0.5, 20])})
    return {"world": world, "rows": rows, "declared": declared, "ess": ess, "cache_size": cache_size, "permseed": rw.randrange(2**31), "ops": ops,
            "spare_category": rw.random() < 0.5}


def _rand_dag(r, n):
    order = shuffled(r, range(n))
    es = []
    dens = r.choice([0.2, 0.5, 0.8])
    for i in range(n):
        ps = [order[j] for j in range(i) if r.random() < dens]
        r.shuffle(ps)
        for p in ps[:3]:
            es.append([p, order[i]])
    return shuffled(r, es)


def describe(case):
    w = case["world"]
    return {"n": w["n"], "card": w["card"], "labels": w["labels"], "rows": len(case["rows"]), "declared": case["declared"], "ess": case["ess"],
            "cache_size": case["cache_size"], "ops": case["ops"][:6]}


# --------------------------------------------------------------------------------------------------
# closed forms from raw counts
# --------------------------------------------------------------------------------------------------
def counts_table(card, rows, v, parents):
    arr = np.zeros([card[v]] + [card[p] for p in parents], dtype=float)
    for r in rows:
        arr[tuple([r[v]] + [r[p] for p in parents])] += 1
    return arr.reshape(card[v], -1)


def ref_local(kind, card, rows, v, parents, ess):
    c = counts_table(card, rows, v, parents)
    r, q = c.shape
    nj = c.sum(axis=0)
    n_total = len(rows)
    lg = math.lgamma
    if kind == "k2":
        return sum(lg(r) - lg(nj[j] + r) + sum(lg(c[k, j] + 1) for k in range(r)) for j in range(q))
    if kind == "bdeu":
        a = ess / q
        b = ess / (q * r)
        return sum(lg(a) - lg(nj[j] + a) + sum(lg(c[k, j] + b) - lg(b) for k in range(r)) for j in range(q))
    if kind == "bds":
        obs = [j for j in range(q) if nj[j] > 0]
        qt = len(obs)
        if qt == 0:
            return 0.0
        b = ess / (qt * r)
        a = ess / qt
        return sum(lg(a) - lg(nj[j] + a) + sum(lg(c[k, j] + b) - lg(b) for k in range(r)) for j in obs)
    if kind == "bds_as_implemented":
        # the variant pgmpy computes when some parent configuration is unobserved (alpha = ess / q~ but beta = ess / (q r),
        # plus a correction term per unobserved configuration); used only to recognise the known finding precisely
        obs = [j for j in range(q) if nj[j] > 0]
        qt = max(len(obs), 1)
        a = ess / qt
        b = ess / (q * r)
        return (sum(lg(c[k, j] + b) - lg(b) for j in range(q) for k in range(r)) + sum(lg(a) - lg(nj[j] + a) for j in obs) - (q - len(obs)) * lg(a))
    ll = 0.0
    for j in range(q):
        for k in range(r):
            if c[k, j] > 0:
                ll += c[k, j] * math.log(c[k, j] / nj[j])
    if kind == "bic":
        return ll - 0.5 * math.log(n_total) * q * (r - 1)
    if kind == "aic":
        return ll - q * (r - 1)
    raise ValueError(kind)


def scorer(kind, df, sn, ess):
    from pgmpy.estimators import AICScore, BDeuScore, BDsScore, BicScore, K2Score

    kw = {"state_names": sn} if sn is not None else {}
    if kind == "k2":
        return K2Score(df, **kw)
    if kind == "bdeu":
        return BDeuScore(df, equivalent_sample_size=ess, **kw)
    if kind == "bds":
        return BDsScore(df, equivalent_sample_size=ess, **kw)
    if kind == "bic":
        return BicScore(df, **kw)
    return AICScore(df, **kw)


def execute(case, ctx):
    from pgmpy.base import DAG
    from pgmpy.estimators.ScoreCache import ScoreCache

    world0, rows0 = case["world"], case["rows"]
    from .c06 import project_world
    _n0 = Names(case["world"])
    ctx.sig_order("labels", [_n0.lab2idx[x] for x in set(_n0.labels)])

    world, rows, _ = project_world(world0, rows0, case["declared"])
    names = Names(world)
    n = world["n"]
    card = world["card"]
    spare = (not case["declared"]) and case.get("spare_category", False)
    if spare:
        ctx.probe("categorical_dtype_with_unused_category")
    df = make_frame(world, names, rows, spare_category=spare)
    sn = {names.L(v): list(names.states[v]) for v in range(n)} if case["declared"] else None
    ess = case["ess"]
    ctx.fault("relabel")
    if case["cache_size"] < 10000:
        ctx.fault("cache_knob")
    rp = random.Random(case["permseed"])
    idx = list(range(len(rows)))
    rp.shuffle(idx)
    cols = list(range(n))
    rp.shuffle(cols)
    df_perm = make_frame(world, names, [rows[j] for j in idx], columns=cols, spare_category=spare)
    plain = {}
    caches = {}
    perm = {}
    calls = {}
    if any(len({r[v] for r in rows}) < card[v] for v in range(n)):
        ctx.probe("declared_state_unobserved")

    def get(kind):
        if kind not in plain:
            plain[kind] = scorer(kind, df, sn, ess)
            caches[kind] = ScoreCache(scorer(kind, df, sn, ess), df, max_size=case["cache_size"])
            perm[kind] = scorer(kind, df_perm, sn, ess)
            calls[kind] = 0
        return plain[kind], caches[kind], perm[kind]

    def dag_of(es):
        es = [(a, b) for a, b in es if a < n and b < n and a != b]
        if not is_acyclic(n, es):
            return None, None
        d = DAG()
        d.add_nodes_from([names.L(v) for v in range(n)])
        d.add_edges_from([(names.L(a), names.L(b)) for a, b in es])
        return d, es

    for i, op in enumerate(case["ops"]):
        ctx.step_no = i
        ctx.steps += 1
        kind = op["score"]
        if op["op"] == "partial_sn":
            _partial_sn(ctx, case, op, world0, rows0)
            continue
        try:
            sc, cached, scp = get(kind)
        except Exception as e:
            ctx.fail("succeeds", f"{PROP}:raise_ctor:{kind}:{type(e).__name__}:{exc_site(e)}", exc_brief(e))
            continue
        ctx.event(op["op"], kind, {k: v for k, v in op.items() if k not in ("op", "score")})
        try:
            if op["op"] == "local":
                v = op["v"]
                ps = [p for p in op["parents"] if p < n and p != v]
                if v >= n:
                    continue
                want = ref_local(kind, card, rows, v, ps, ess)
                got = float(sc.local_score(names.L(v), [names.L(p) for p in ps]))
                got_c = float(cached.local_score(names.L(v), [names.L(p) for p in ps]))
                got_p = float(scp.local_score(names.L(v), [names.L(p) for p in reversed(ps)]))
                ctx.checked += 1
                calls[kind] += 1
                cnt = counts_table(card, rows, v, ps)
                unobs_cfg = bool((cnt.sum(axis=0) == 0).any())
                unobs_state = bool((cnt.sum(axis=1) == 0).any())
                if unobs_cfg:
                    ctx.probe("unobserved_parent_configuration")
                if len(cached.cache.mapping) > case["cache_size"]:
                    ctx.fail("cache", f"{PROP}:cache_over_capacity", {"size": len(cached.cache.mapping), "max": case["cache_size"]})
                if not close(got_c, got, atol=1e-9, rtol=1e-9):
                    ctx.fail("cache", f"{PROP}:cache_differs:{kind}", {"cached": got_c, "uncached": got, "v": v, "parents": ps, "call": calls[kind]})
                if not close(got, want, atol=1e-8, rtol=1e-9):
                    sig = f"{PROP}:local:{kind}"
                    if kind == "bds" and unobs_cfg and close(got, ref_local("bds_as_implemented", card, rows, v, ps, ess), atol=1e-8, rtol=1e-9):
                        sig = f"{PROP}:bds_unobserved_parent_configuration"
                    ctx.fail("closed_form", sig, {"got": got, "want": want, "v": v, "parents": ps, "card": card, "unobserved_config": unobs_cfg,
                                                  "unobserved_child_state": unobs_state, "ess": ess})
                elif not close(got_p, got, atol=1e-8, rtol=1e-9):
                    ctx.fail("invariance", f"{PROP}:permutation:{kind}", {"permuted": got_p, "plain": got, "v": v, "parents": ps})
            elif op["op"] in ("score_model", "wrapper"):
                d, es = dag_of(op["dag"])
                if d is None:
                    continue
                e_ = ess
                if op["op"] == "wrapper" and op.get("ess") is not None:
                    e_ = op["ess"]
                    ctx.probe("wrapper_option_varied")
                want = sum(ref_local(kind, card, rows, v, [a for a, b in es if b == v], e_) for v in range(n))
                # structure prior: uniform (0) except the marginal uniform prior of BDs
                prior = -(len(es) + n * (n - 1) / 2.0) * math.log(2.0) if kind == "bds" else 0.0
                want += prior
                if op["op"] == "score_model":
                    got = float(sc.score(d))
                else:
                    from pgmpy.metrics import structure_score

                    kw = {"state_names": sn} if sn is not None else {}
                    if kind in ("bdeu", "bds"):
                        kw["equivalent_sample_size"] = e_
                    got = float(structure_score(d, df, scoring_method=kind, **kw))
                ctx.checked += 1
                locs = sum(float(cached.local_score(names.L(v), [names.L(a) for a, b in es if b == v])) for v in range(n)) + prior
                if e_ != ess:
                    locs = got  # the cached scorer was built with the case's sample size
                if not close(got, locs, atol=1e-8, rtol=1e-9):
                    ctx.fail("decomposable", f"{PROP}:score_not_sum_of_locals:{kind}", {"score": got, "sum_locals": locs, "dag": es})
                elif not close(got, want, atol=1e-7, rtol=1e-9):
                    unobs = any((counts_table(card, rows, v, [a for a, b in es if b == v]).sum(axis=0) == 0).any() for v in range(n))
                    sig = f"{PROP}:model_score:{kind}"
                    impl = sum(ref_local("bds_as_implemented", card, rows, v, [a for a, b in es if b == v], e_) for v in range(n)) + prior if kind == "bds" else None
                    if kind == "bds" and unobs and close(got, impl, atol=1e-7, rtol=1e-9):
                        sig = f"{PROP}:bds_unobserved_parent_configuration"
                    ctx.fail("closed_form", sig, {"got": got, "want": want, "dag": es, "ess": e_})
            elif op["op"] == "equivalent":
                d, es = dag_of(op["dag"])
                if d is None or not es:
                    continue
                # reverse one covered edge: the result is Markov equivalent
                pa = {v: {a for a, b in es if b == v} for v in range(n)}
                covered = [(a, b) for a, b in es if pa[b] - {a} == pa[a]]
                if not covered:
                    continue
                a, b = covered[op["pick"] % len(covered)]
                es2 = [(x, y) for x, y in es if (x, y) != (a, b)] + [(b, a)]
                if not is_acyclic(n, es2) or skeleton(es) != skeleton(es2) or vstructures(n, es) != vstructures(n, es2):
                    continue
                d2, _ = dag_of(es2)
                s1, s2 = float(sc.score(d)), float(sc.score(d2))
                ctx.checked += 1
                ctx.probe("equivalent_pair")
                if not close(s1, s2, atol=1e-7, rtol=1e-9):
                    ctx.fail("score_equivalent", f"{PROP}:not_score_equivalent:{kind}", {"s1": s1, "s2": s2, "dag": es, "reversed": [a, b], "ess": ess})
        except Exception as e:
            ctx.fail("succeeds", f"{PROP}:raise:{op['op']}:{kind}:{type(e).__name__}:{exc_site(e)}", exc_brief(e))
    for kind, c in caches.items():
        if calls.get(kind, 0) > case["cache_size"]:
            ctx.probe("cache_eviction_possible")


def _partial_sn(ctx, case, op, world0, rows0):
    from .c06 import project_world

    n = world0["n"]
    decl = sorted(v for v in op["declared_vars"] if v < n)
    sub = [j for j in op["subset"] if j < len(rows0)]
    v, ps = op["v"], [p for p in op["parents"] if p < n and p != op["v"]]
    if not decl or not sub or v >= n:
        return
    kind = op["score"]
    names0 = Names(world0)
    sn = {names0.L(u): list(names0.states[u]) for u in decl}
    before = {k_: list(x) for k_, x in sn.items()}
    ctx.event("partial_sn", kind, decl, len(sub), v, ps)
    ctx.fault("object_history")
    try:
        for part, ridx in (("all_rows", list(range(len(rows0)))), ("subset", sub)):
            rows_part = [rows0[j] for j in ridx]
            w2, rows2, _ = project_world(world0, rows_part, decl)
            names2 = Names(w2)
            df = make_frame(w2, names2, rows2)
            sc = scorer(kind, df, sn, case["ess"])
            got = float(sc.local_score(names2.L(v), [names2.L(p) for p in ps]))
            want = ref_local(kind, w2["card"], rows2, v, ps, case["ess"])
            ctx.checked += 1
            if {k_: list(x) for k_, x in sn.items()} != before:
                ctx.fail("purity", f"{PROP}:state_names_argument_changed:{kind}", {"before": sorted(map(repr, before)), "after": sorted(map(repr, sn)), "part": part})
                before = {k_: list(x) for k_, x in sn.items()}
            if not close(got, want, atol=1e-8, rtol=1e-9):
                cnt = counts_table(w2["card"], rows2, v, ps)
                if kind == "bds" and bool((cnt.sum(axis=0) == 0).any()) and close(got, ref_local("bds_as_implemented", w2["card"], rows2, v, ps, case["ess"]), atol=1e-8, rtol=1e-9):
                    ctx.fail("closed_form", f"{PROP}:bds_unobserved_parent_configuration", {"got": got, "want": want})
                else:
                    ctx.fail("closed_form", f"{PROP}:local:{kind}:partial_state_names", {"got": got, "want": want, "part": part, "declared": decl, "v": v, "parents": ps, "card": w2["card"]})
                return
    except Exception as e:
        ctx.fail("succeeds", f"{PROP}:raise:partial_sn:{kind}:{type(e).__name__}:{exc_site(e)}", exc_brief(e))


def shrink_candidates(case):
    rows = case["rows"]
    if len(rows) > 1:
        for cut in (len(rows) // 2, len(rows) - 1):
            out = copy.deepcopy(case)
            out["rows"] = rows[:cut]
            yield out
        for j in range(min(len(rows), 12)):
            out = copy.deepcopy(case)
            del out["rows"][j]
            yield out
    if not case["declared"]:
        out = copy.deepcopy(case)
        out["declared"] = True
        yield out
    if case["cache_size"] != 10000:
        out = copy.deepcopy(case)
        out["cache_size"] = 10000
        yield out
    w = case["world"]
    if any(not (isinstance(l, str) and l == f"v{i}") for i, l in enumerate(w["labels"])):
        out = copy.deepcopy(case)
        out["world"]["labels"] = [f"v{i}" for i in range(w["n"])]
        yield out
    for i, op in enumerate(case["ops"]):
        if op["op"] == "local" and op["parents"]:
            for p in op["parents"]:
                out = copy.deepcopy(case)
                out["ops"][i]["parents"].remove(p)
                yield out
        if "dag" in op and op["dag"]:
            for j in range(len(op["dag"])):
                out = copy.deepcopy(case)
                del out["ops"][i]["dag"][j]
                yield out
