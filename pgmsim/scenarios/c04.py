"""C04 - factor algebra is pointwise, order-independent and side-effect free.

Simulated: (a) the scope order of a product / sum result is hash order (labels x PYTHONHASHSEED) and cardinalities /
state names are re-derived from it; (b) a pool of live factors receives a history of in-place and out-of-place
operations (including refused ones); after EVERY step every pool member is compared with its reference twin, so an alias
created at step i is caught when step j > i mutates one side; (c) numpy / torch backend as run configuration."""
import copy
import random

import numpy as np

from .. import seams, world as W
from ..core import exc_brief, exc_site
from ..prng import shuffled, weighted
from ..realise import Mismatch, Names, factor_to_logical, to_np
from ..refmodel import close, maxdiff

PROP = "C04"
POOL = 4


def generate(streams, tier):
    r = streams.s("world")
    k = 5
    card = [r.choice([1, 2, 2, 3, 3]) for _ in range(k)]
    rl = streams.s("labels")
    labels, mode = W.gen_labels(rl, k)
    smode = weighted(rl, [("default", 2), ("str", 3), ("int", 2), ("mixed", 1), ("tuple", 1), ("odd", 1)])
    states = [W.gen_states(rl, card[v], smode, allow_negative=True) if card[v] <= 5 else None for v in range(k)]
    universe = {"n": k, "card": card, "labels": labels, "states": states, "signed": streams.s("signed").random() < 0.25}
    rw = streams.s("workload")
    init = [_rand_factor(rw, universe) for _ in range(POOL)]
    ops = []
    nops = rw.randint(4, 14 if tier == "quick" else 40)
    for _ in range(nops):
        kind = weighted(rw, [("product", 5), ("sum", 3), ("divide", 4), ("marginalize", 4), ("maximize", 2), ("reduce", 3), ("normalize", 2), ("scalar", 2),
                             ("copy", 2), ("new", 2), ("poke", 3), ("factor_product", 2), ("factor_divide", 1), ("factor_sum_product", 2), ("eq", 3), ("bad", 2)])
        op = {"op": kind, "i": rw.randrange(POOL), "j": rw.randrange(POOL), "dst": rw.randrange(POOL), "inplace": rw.random() < 0.4,
              "pick": rw.randrange(10**6), "operator": rw.random() < 0.4}
        if kind == "new":
            op["factor"] = _rand_factor(rw, universe)
        if kind == "scalar":
            op["c"] = rw.choice([0, 2, 0.5, 3])
            op["fn"] = rw.choice(["mul", "add", "rmul", "radd"])
        ops.append(op)
    return {"universe": universe, "backend": streams.s("config").choice(["numpy", "numpy", "numpy", "torch", "torch", "numpy:float32", "torch:float32"]), "init": init, "ops": ops}


def _rand_factor(r, u, scope=None):
    if scope is None:
        scope = r.sample(range(u["n"]), r.randint(1, 3))
    size = int(np.prod([u["card"][v] for v in scope]))
    zero = r.choice([0.0, 0.0, 0.3])
    vals = [0.0 if r.random() < zero else r.randint(1, 16) / 4.0 for _ in range(size)]
    if u.get("signed"):
        # general real-valued factors (log-potentials, differences of factors): a negative cell over a zero cell is -inf
        vals = [-x if x != 0 and r.random() < 0.3 else x for x in vals]
    return {"scope": list(scope), "values": vals}


def describe(case):
    u = case["universe"]
    return {"labels": u["labels"], "card": u["card"], "states": u["states"], "backend": case["backend"], "init": [f["scope"] for f in case["init"]],
            "ops": [{k: v for k, v in op.items() if k != "factor"} for op in case["ops"][:8]]}


# --------------------------------------------------------------------------------------------------
class Ref:
    """Reference twin: sorted logical scope + array in logical state order."""

    SINGLE = False  # set per run by execute()

    def __init__(self, scope, arr, tainted=False):
        self.scope = list(scope)
        self.arr = np.asarray(arr, dtype=float)
        # tainted: computed by arithmetic on a non-finite cell (inf * 0, inf - inf, sums through inf ...).  The property defines
        # x/0 = inf and 0/0 = 0 for a division of finite factors and nothing beyond, so such values (and everything computed
        # from them) are followed structurally only.
        self.tainted = bool(tainted)

    def undefined_input(self):
        if self.tainted or not bool(np.all(np.isfinite(self.arr))):
            return True
        if Ref.SINGLE:
            # float32 run configuration: magnitudes outside [1e-25, 1e25] over- or underflow (or lose all precision in sums) in
            # single precision, which the float64 twin cannot predict cell by cell
            a = np.abs(self.arr[self.arr != 0])
            if a.size and (a.max() > 1e25 or a.min() < 1e-25):
                return True
        return False

    @classmethod
    def from_spec(cls, u, f):
        sc = list(f["scope"])
        a = np.asarray(f["values"], dtype=float).reshape([u["card"][v] for v in sc])
        order = sorted(range(len(sc)), key=lambda i: sc[i])
        return cls(sorted(sc), np.transpose(a, order))

    def expand(self, scope, card):
        shape = [card[v] if v in self.scope else 1 for v in scope]
        src = [v for v in scope if v in self.scope]
        assert src == self.scope
        return self.arr.reshape(shape)

    def binary(self, other, card, fn):
        scope = sorted(set(self.scope) | set(other.scope))
        a = np.broadcast_to(self.expand(scope, card), [card[v] for v in scope])
        b = np.broadcast_to(other.expand(scope, card), [card[v] for v in scope])
        with np.errstate(divide="ignore", invalid="ignore"):
            out = fn(a, b)
            cancel = fn is np.add and _cancels(out, np.abs(a) + np.abs(b))
        return Ref(scope, out, tainted=self.undefined_input() or other.undefined_input() or cancel)

    def reduce_axes(self, vs, how):
        axes = tuple(self.scope.index(v) for v in vs)
        arr = self.arr.sum(axis=axes) if how == "sum" else self.arr.max(axis=axes)
        with np.errstate(invalid="ignore"):
            cancel = how == "sum" and _cancels(arr, np.abs(self.arr).sum(axis=axes))
        return Ref([v for v in self.scope if v not in vs], arr, tainted=self.undefined_input() or cancel)

    def copy(self):
        return Ref(self.scope, self.arr.copy(), tainted=self.tainted)


def _cancels(total, abs_total):
    """Signed factors: a sum whose terms cancel (|sum| below 1e-6 of the sum of magnitudes, zero included) is known only up to the
    rounding of the terms - 0 in one summation order, 1e-17 in another - and whatever is computed from it (a quotient above all) is
    not defined cell by cell; the result is followed structurally (taint), like arithmetic on infinities."""
    t, a = np.asarray(total, dtype=float), np.asarray(abs_total, dtype=float)
    with np.errstate(invalid="ignore"):
        return bool(np.any((a > 0) & np.isfinite(a) & (np.abs(t) <= 1e-6 * a)))


def _div(a, b):
    out = a / b
    out = np.where(np.isnan(out), 0.0, out)
    return out


def make(u, names, f, axis_perm=None):
    from pgmpy.factors.discrete import DiscreteFactor

    sc = list(f["scope"])
    kw = {}
    if any(u["states"][v] is not None for v in sc):
        kw["state_names"] = {names.L(v): list(names.states[v]) for v in sc}
    return DiscreteFactor([names.L(v) for v in sc], [u["card"][v] for v in sc], list(f["values"]), **kw)


def check_member(ctx, names, card, phi, ref, what, slot, strict_nonfinite=False, single=False):
    """pgmpy factor against its reference twin; also internal consistency (cardinality vs shape vs state names).

    x/0 = inf and 0/0 = 0 are defined for a division of finite factors (strict_nonfinite); what later arithmetic makes of an
    inf (inf*0, inf-inf, summation order) is not defined by the property, so cells that are not finite in the reference are
    then only required to be non-finite-or-anything, i.e. they are not compared."""
    try:
        vals = to_np(phi.values)
        if list(vals.shape) != [int(c) for c in phi.cardinality] or len(phi.variables) != vals.ndim:
            ctx.fail("cardinality", f"{PROP}:cardinality_vs_shape:{what}", {"slot": slot, "variables": [repr(x) for x in phi.variables], "cardinality": [int(c) for c in phi.cardinality],
                                                                           "shape": list(vals.shape)})
            return False
        lv, arr = factor_to_logical(phi, names, expect_vars=ref.scope)
    except Mismatch as e:
        ctx.fail("labels", f"{PROP}:labels:{what}", {"slot": slot, "why": str(e)})
        return False
    if ref.tainted or (single and ref.undefined_input()):
        ctx.probe("undefined_arithmetic_followed_structurally")
        return True
    a_cmp, r_cmp = np.asarray(arr, dtype=float), np.asarray(ref.arr, dtype=float)
    if not strict_nonfinite and a_cmp.shape == r_cmp.shape and not np.all(np.isfinite(r_cmp)):
        mask = np.isfinite(r_cmp)
        a_cmp, r_cmp = a_cmp[mask], r_cmp[mask]
    if a_cmp.shape == r_cmp.shape and np.any(np.isinf(r_cmp)):
        # x/0 is infinite; its sign is the sign of x times the sign of the zero, and signed zeros (0 * -3 = -0.0, -0.0 + 0.0) are
        # not defined by the property: an infinite reference cell demands an infinite cell, of either sign
        inf_mask = np.isinf(r_cmp)
        if not np.all(np.isinf(a_cmp[inf_mask])):
            ctx.fail("values", f"{PROP}:values:{what}", {"slot": slot, "scope": ref.scope, "why": "finite cell where x/0 is infinite",
                                                         "got": np.asarray(arr).reshape(-1).tolist()[:8], "want": np.asarray(ref.arr).reshape(-1).tolist()[:8]})
            return False
        a_cmp, r_cmp = a_cmp[~inf_mask], r_cmp[~inf_mask]
    # float32 run configuration: about 7 significant digits per operation, histories of up to 40 operations
    if not (close(a_cmp, r_cmp, atol=1e-4 * max(1.0, float(np.abs(r_cmp).max()) if r_cmp.size else 1.0), rtol=1e-3) if single else close(a_cmp, r_cmp, atol=1e-9, rtol=1e-9)):
        ctx.fail("values", f"{PROP}:values:{what}", {"slot": slot, "scope": ref.scope, "maxdiff": maxdiff(arr, ref.arr), "got": np.asarray(arr).round(6).reshape(-1).tolist()[:8],
                                                     "want": np.asarray(ref.arr).round(6).reshape(-1).tolist()[:8]})
        return False
    return True


def execute(case, ctx):
    from pgmpy.factors import factor_divide, factor_product, factor_sum_product
    from pgmpy.factors.discrete import DiscreteFactor

    u = case["universe"]
    card = u["card"]
    names = Names(u)
    seams.set_backend(case["backend"])
    ctx.fault("relabel")
    ctx.sig_order("labels", [names.lab2idx[x] for x in set(names.labels)])
    if case["backend"] != "numpy":
        ctx.fault("backend_config")
    single = case["backend"].endswith("float32")
    Ref.SINGLE = single
    if single:
        ctx.probe("dtype_float32")
    pool = [make(u, names, f) for f in case["init"]]
    refs = [Ref.from_spec(u, f) for f in case["init"]]
    L = names.L

    def verify_all(what, skip=()):
        ok = True
        for s in range(len(pool)):
            if s in skip:
                continue
            ok = check_member(ctx, names, card, pool[s], refs[s], what, s, single=single) and ok
        return ok

    if not verify_all("init"):
        return
    for step, op in enumerate(case["ops"]):
        ctx.step_no = step
        ctx.steps += 1
        k = op["op"]
        i, j, dst = op["i"] % POOL, op["j"] % POOL, op["dst"] % POOL
        rr = random.Random(op["pick"])
        ctx.event(k, i, j, dst, op["inplace"], op.get("operator"))
        a, b = pool[i], pool[j]
        ra, rb = refs[i], refs[j]
        result = None  # (factor, ref) produced out-of-place
        raised = None
        expect_refused = False
        new_ref_i = None
        try:
            if k in ("product", "sum", "divide"):
                if i == j and op["inplace"]:
                    continue
                if k == "divide" and not set(rb.scope) <= set(ra.scope):
                    expect_refused = True
                    rres = None
                else:
                    fn = {"product": np.multiply, "sum": np.add, "divide": _div}[k]
                    rres = ra.binary(rb, card, fn)
                if op["inplace"]:
                    getattr(a, k)(b, inplace=True)
                    new_ref_i = rres
                else:
                    if op.get("operator"):
                        res = {"product": lambda: a * b, "sum": lambda: a + b, "divide": lambda: a / b}[k]()
                    else:
                        res = getattr(a, k)(b, inplace=False)
                    result = (res, rres)
            elif k in ("marginalize", "maximize"):
                sc = ra.scope
                empty = rr.random() < 0.2
                vs = rr.sample(sc, rr.randint(1, len(sc))) if sc else []
                if empty:
                    # eliminating no variable is the identity (and, out of place, must still hand back an independent factor)
                    vs = []
                    ctx.probe("eliminate_nothing")
                elif not vs:
                    continue
                if vs and len(vs) == len(sc):
                    ctx.probe("scope_emptied")
                rres = ra.reduce_axes(vs, "sum" if k == "marginalize" else "max")
                if op["inplace"]:
                    getattr(a, k)([L(v) for v in vs], inplace=True)
                    new_ref_i = rres
                else:
                    result = (getattr(a, k)([L(v) for v in vs], inplace=False), rres)
            elif k == "reduce":
                sc = ra.scope
                if not sc:
                    continue
                vs = rr.sample(sc, rr.randint(1, len(sc)))
                st = {v: rr.randrange(card[v]) for v in vs}
                idx = tuple(st[v] if v in st else slice(None) for v in sc)
                rres = Ref([v for v in sc if v not in st], ra.arr[idx], tainted=ra.tainted)
                vals = [(L(v), names.S(v, s)) for v, s in st.items()]
                if op["inplace"]:
                    a.reduce(vals, inplace=True)
                    new_ref_i = rres
                else:
                    result = (a.reduce(vals, inplace=False), rres)
            elif k == "normalize":
                tot = ra.arr.sum()
                if tot <= 0 or _cancels(tot, np.abs(ra.arr).sum()):
                    continue
                rres = Ref(ra.scope, ra.arr / tot, tainted=ra.undefined_input())
                if op["inplace"]:
                    a.normalize(inplace=True)
                    new_ref_i = rres
                else:
                    result = (a.normalize(inplace=False), rres)
            elif k == "scalar":
                c = op["c"]
                fn = op["fn"]
                rres = Ref(ra.scope, ra.arr * c if "mul" in fn else ra.arr + c,
                           tainted=ra.undefined_input() or ("add" in fn and _cancels(ra.arr + c, np.abs(ra.arr) + abs(c))))
                if op["inplace"] and fn in ("mul", "add"):
                    # scalar operand, in place: works on the value buffer itself
                    getattr(a, "product" if fn == "mul" else "sum")(c, inplace=True)
                    new_ref_i = rres
                    ctx.probe("scalar_inplace")
                else:
                    res = {"mul": lambda: a * c, "rmul": lambda: c * a, "add": lambda: a + c, "radd": lambda: c + a}[fn]()
                    result = (res, rres)
            elif k == "poke":
                # a single cell overwritten through the public setter (string or default state names only: the setter reads other
                # kinds of names as state numbers); used as a mutation that exposes shared value buffers
                sc = ra.scope
                if not sc or any(u["states"][v] is not None and not all(isinstance(x, str) for x in u["states"][v]) for v in sc):
                    continue
                cell = {v: rr.randrange(card[v]) for v in sc}
                val = rr.choice([0.0, 1.0, 7.5, 0.125])
                a.set_value(val, **{L(v): names.S(v, s) for v, s in cell.items()}) if all(isinstance(L(v), str) and L(v).isidentifier() for v in sc) else None
                if not all(isinstance(L(v), str) and L(v).isidentifier() for v in sc):
                    continue
                new_arr = ra.arr.copy()
                new_arr[tuple(cell[v] for v in sc)] = val
                new_ref_i = Ref(sc, new_arr, tainted=ra.tainted)
                ctx.probe("poke")
            elif k == "copy":
                result = (a.copy(), ra.copy())
            elif k == "new":
                f = op["factor"]
                if any(v >= u["n"] for v in f["scope"]) or len(f["values"]) != int(np.prod([card[v] for v in f["scope"]])):
                    continue
                result = (make(u, names, f), Ref.from_spec(u, f))
            elif k == "factor_product":
                c_ = pool[dst]
                rres = ra.binary(rb, card, np.multiply).binary(refs[dst], card, np.multiply)
                result = (factor_product(a, b, c_), rres)
            elif k == "factor_divide":
                if not set(rb.scope) <= set(ra.scope):
                    expect_refused = True
                    rres = None
                else:
                    rres = ra.binary(rb, card, _div)
                result = (factor_divide(a, b), rres)
            elif k == "factor_sum_product":
                prod = ra.binary(rb, card, np.multiply)
                if not prod.scope:
                    continue
                out_vars = rr.sample(prod.scope, rr.randint(1, len(prod.scope)))
                rres = prod.reduce_axes([v for v in prod.scope if v not in out_vars], "sum")
                res = factor_sum_product(output_vars=[L(v) for v in out_vars], factors=[a, b])
                result = (res, rres)
            elif k == "eq":
                _eq_probe(ctx, u, names, a, ra, rr)
                ctx.checked += 1
            elif k == "bad":
                # operations the API must refuse; the pool must be untouched afterwards
                which = rr.choice(["marginalize_absent", "reduce_absent", "divide_superset"])
                absent = [v for v in range(u["n"]) if v not in ra.scope]
                expect_refused = True
                ctx.fault("reject_op")
                if which == "marginalize_absent" and absent:
                    a.marginalize([L(absent[0])], inplace=op["inplace"])
                elif which == "reduce_absent" and absent:
                    a.reduce([(L(absent[0]), names.S(absent[0], 0))], inplace=op["inplace"])
                elif which == "divide_superset":
                    sup = [x for x in range(POOL) if not set(refs[x].scope) <= set(ra.scope)]
                    if not sup:
                        continue
                    a.divide(pool[sup[0]], inplace=op["inplace"])
                else:
                    continue
        except Exception as e:
            raised = e
        ctx.checked += 1
        if raised is not None:
            if not expect_refused:
                ctx.fail("succeeds", f"{PROP}:raise:{k}:{type(raised).__name__}:{exc_site(raised)}", {"exc": exc_brief(raised), "scopes": [ra.scope, rb.scope], "inplace": op["inplace"]})
            # a refused / failed operation must leave every pool member as it was
            verify_all(k + ":after_refusal")
            if any(f["step"] == step for f in ctx.failures):
                return
            continue
        if expect_refused:
            ctx.probe("invalid_operation_accepted:" + k)
            # follow reality: drop the (meaningless) result, but operands must still be intact unless in-place
            if op["inplace"] and k in ("divide",):
                return
        if new_ref_i is not None:
            refs[i] = new_ref_i
        if result is not None and not expect_refused:
            res, rres = result
            if not isinstance(res, DiscreteFactor):
                ctx.fail("values", f"{PROP}:result_type:{k}", type(res).__name__)
                return
            # the out-of-place result must be right *before* it joins the pool, and operands untouched
            strict = k in ("divide", "factor_divide") and np.all(np.isfinite(ra.arr)) and np.all(np.isfinite(rb.arr))
            if not check_member(ctx, names, card, res, rres, k, "result", strict_nonfinite=strict, single=single):
                verify_all(k + ":operands")
                return
            pool[dst] = res
            refs[dst] = rres
        if not verify_all(k):
            return


def _eq_probe(ctx, u, names, a, ra, rr):
    """== under axis permutation and state reordering; != for a twin perturbed beyond tolerance."""
    from pgmpy.factors.discrete import DiscreteFactor

    sc = list(ra.scope)
    if not sc or ra.tainted or not np.all(np.isfinite(ra.arr)):
        return  # x/0 = inf and inf*0 = nan are outside the equality clause (nan != nan by IEEE)
    mags = np.abs(ra.arr[ra.arr != 0])
    if mags.size and (mags.max() > 1e30 or mags.min() < 1e-30):
        return  # under the torch backend a factor built from a list passes through float32 (range 1e-38..3e38)
    perm_axes = shuffled(rr, sc)
    # state order permutation per variable
    sperm = {v: shuffled(rr, range(u["card"][v])) for v in sc}
    # the twin carries the factor's OWN values (not the reference's): the clause is about axis and state order, and a factor that
    # went through single-precision or cancelling arithmetic differs from the float64 reference by more than the == tolerance
    try:
        _lv, arr = factor_to_logical(a, names, expect_vars=sc)
        arr = np.asarray(arr, dtype=float)
    except Mismatch:
        return
    if arr.shape != ra.arr.shape or not np.all(np.isfinite(arr)):
        return
    for ax, v in enumerate(sc):
        arr = np.take(arr, sperm[v], axis=ax)
    arr = np.transpose(arr, [sc.index(v) for v in perm_axes])
    sn = {names.L(v): [names.states[v][s] for s in sperm[v]] for v in perm_axes}
    twin = DiscreteFactor([names.L(v) for v in perm_axes], [u["card"][v] for v in perm_axes], arr.reshape(-1), state_names=sn)
    try:
        if not (a == twin) or (a != twin):
            ctx.fail("equality", f"{PROP}:eq_false_for_equal", {"scope": sc, "axes": perm_axes, "state_perm": {str(k): v for k, v in sperm.items()}})
        if not (twin == a):
            ctx.fail("equality", f"{PROP}:eq_not_symmetric", {"scope": sc})
        pert = arr.copy().reshape(-1)
        finite = [q for q in range(pert.size) if np.isfinite(pert[q])]
        if finite and np.all(np.isfinite(pert)):
            idx = rr.choice(finite)
            pert[idx] = pert[idx] + 0.01 * abs(pert[idx]) + 0.01
            twin2 = DiscreteFactor([names.L(v) for v in perm_axes], [u["card"][v] for v in perm_axes], pert, state_names=sn)
            if a == twin2:
                ctx.fail("equality", f"{PROP}:eq_true_for_different", {"scope": sc, "cell": idx})
        # same values, one state renamed: different named assignments
        if any(u["card"][v] > 0 for v in sc):
            v0 = perm_axes[0]
            sn3 = dict(sn)
            sn3[names.L(v0)] = ["__other__"] + list(sn[names.L(v0)][1:])
            twin3 = DiscreteFactor([names.L(v) for v in perm_axes], [u["card"][v] for v in perm_axes], arr.reshape(-1), state_names=sn3)
            if a == twin3:
                ctx.fail("equality", f"{PROP}:eq_true_for_other_state_names", {"scope": sc})
    except Exception as e:
        ctx.fail("equality", f"{PROP}:eq_raises:{type(e).__name__}:{exc_site(e)}", exc_brief(e))


def shrink_candidates(case):
    u = case["universe"]
    if case["backend"] != "numpy":
        out = copy.deepcopy(case)
        out["backend"] = "numpy"
        yield out
    if any(not (isinstance(l, str) and l == f"v{i}") for i, l in enumerate(u["labels"])):
        out = copy.deepcopy(case)
        out["universe"]["labels"] = [f"v{i}" for i in range(u["n"])]
        yield out
    if any(s is not None for s in u["states"]):
        out = copy.deepcopy(case)
        out["universe"]["states"] = [None] * u["n"]
        yield out
    for i, op in enumerate(case["ops"]):
        if op.get("inplace"):
            out = copy.deepcopy(case)
            out["ops"][i]["inplace"] = False
            yield out
        if op.get("operator"):
            out = copy.deepcopy(case)
            out["ops"][i]["operator"] = False
            yield out
