"""C13 - interventions follow the truncated factorisation.

Simulated: CausalInference.query drives ONE inference engine through a history of queries (p_z, then one per adjustment
state; with the BP back-end each swaps and restores the engine's model); the adjustment set is iterated as a set (labels x
hash seed); one CausalInference object serves several queries incl. refused ones; do() is copy-then-surgery, so the original
is snapshotted before and compared after.  Oracle: truncated-factorisation joint; back-door / front-door criteria by
d-separation on the mutilated graph / path enumeration."""
import copy
import itertools

import numpy as np

from .. import world as W
from ..core import exc_brief, exc_site
from ..prng import shuffled, weighted
from ..realise import Mismatch, Names, build_bn, factor_to_logical, make_cpd, snapshot_bn, to_np
from ..refmodel import RefJoint, close, dsep, maxdiff

PROP = "C13"


def generate(streams, tier):
    big = tier == "thorough"
    r = streams.s("kind")
    world = W.gen_bn(streams, max_n=6 if big else 5, min_n=2, max_card=3, max_parents=3, max_joint=729, force_str_labels=True, allow_card1=False,
                     state_modes=[("default", 2), ("str", 3), ("int_sorted", 1)], positive=True)
    # strictly positive tables: identification by adjustment presupposes positivity (P(x | z) > 0)
    n = world["n"]
    motif = None
    if n >= 5 and r.random() < 0.3:
        motif = _motif(r, world)
    if motif and motif.get("latents") is not None:
        world["latents"] = motif["latents"]
    elif n >= 3 and r.random() < 0.45:
        # latent variables, preferably mediators / confounders (nodes with a parent and a child, or with two children)
        ch = {v: [u for u in range(n) if v in world["parents"][u]] for v in range(n)}
        inner = [v for v in range(n) if (world["parents"][v] and ch[v]) or len(ch[v]) >= 2]
        pool = inner if inner and r.random() < 0.7 else list(range(n))
        world["latents"] = sorted(r.sample(pool, 2 if len(pool) >= 2 and n >= 5 and r.random() < 0.3 else 1))
    config = W.gen_bn_config(streams, world)
    rw = streams.s("workload")
    ops = []
    for _ in range(rw.randint(2, 6)):
        k = weighted(rw, [("do", 3), ("query", 6), ("backdoor", 3), ("all_backdoor", 2), ("frontdoor", 1), ("minimal", 2), ("refused", 1)])
        op = {"op": k, "pick": rw.randrange(10**6)}
        if k == "do":
            op["nodes"] = rw.sample(range(n), rw.randint(1, min(2, n)))
            op["inplace"] = rw.random() < 0.4
        elif k in ("query", "refused"):
            nx_ = rw.choice([1, 1, 1, 2]) if n >= 3 else 1
            xs = rw.sample(range(n), nx_)
            op["do"] = {str(x): rw.randrange(world["card"][x]) for x in xs}
            op["algo"] = rw.choice(["ve", "bp"])
            op["adjust"] = rw.choice(["default", "default", "valid", "valid", "empty_if_valid"])
            op["ny"] = rw.choice([1, 1, 2])
        else:
            x, y = rw.sample(range(n), 2)
            if k == "minimal":
                # the question is only put for an outcome that descends from the treatment: pick such a pair when there is one
                pairs = [(a, b) for a in range(n) for b in W.descendants(world, [a]) if b != a]
                if pairs:
                    x, y = rw.choice(sorted(pairs))
            op["x"], op["y"] = x, y
        ops.append(op)
    if motif and motif.get("xy"):
        x, y = motif["xy"]
        for _ in range(rw.randint(1, 2)):
            ops.insert(rw.randint(0, len(ops)), {"op": rw.choice(["all_backdoor", "backdoor", "minimal"]), "x": x, "y": y, "pick": rw.randrange(10**6)})
    if n >= 3 and (rw.random() < 0.35 or (motif and motif.get("w") is not None)):
        # graph questions, then surgery in place on the same model object, then the same questions again on the operated network
        x, y, w_ = rw.sample(range(n), 3)
        if motif and motif.get("w") is not None:
            (x, y), w_ = motif["xy"], motif["w"]
        zfix = [w_] if rw.random() < 0.6 else None
        ops.insert(rw.randint(0, len(ops)), {"op": "backdoor", "x": x, "y": y, "pick": rw.randrange(10**6), "z": zfix})
        tail = [{"op": "do", "nodes": [w_], "inplace": True, "keep": True, "pick": rw.randrange(10**6)}]
        for _ in range(rw.randint(1, 3)):
            tail.append({"op": rw.choice(["backdoor", "backdoor", "all_backdoor", "query_keep"]), "x": x, "y": y, "pick": rw.randrange(10**6), "z": zfix})
        for t in tail:
            if t["op"] == "query_keep":
                t.update({"op": "query", "do": {str(x): rw.randrange(world["card"][x])}, "algo": rw.choice(["ve", "bp"]), "adjust": "default", "ny": 1})
        ops.extend(tail)
    if rw.random() < 0.3:
        # the caller re-parameterises the live network (replaces a CPD) between two questions put to the same engine object
        x = rw.randrange(n)
        q = {"op": "query", "do": {str(x): rw.randrange(world["card"][x])}, "algo": rw.choice(["bp", "bp", "ve"]), "adjust": "default", "ny": rw.choice([1, 2])}
        seq = [dict(q, pick=rw.randrange(10**6))]
        for _ in range(rw.randint(1, 2)):
            v = rw.randrange(n)
            pc = [world["card"][p] for p in world["parents"][v]]
            seq.append({"op": "replace_cpd", "node": v, "table": W.gen_table(rw, world["card"][v], pc), "pick": rw.randrange(10**6)})
            seq.append(dict(q, pick=rw.randrange(10**6)))
        at = rw.randint(0, len(ops))
        ops[at:at] = seq
    return {"world": world, "config": config, "ops": ops}


def _motif(r, world):
    """Rewrites the structure of a world with >= 5 nodes into one of two textbook shapes (tables are redrawn, strictly positive)."""
    n, card = world["n"], world["card"]
    nodes = shuffled(r, range(n))
    kind = r.choice(["collider_with_descendant", "latent_mediator"])
    parents = {v: [] for v in range(n)}
    out = {}
    if kind == "collider_with_descendant":
        # X <- A -> C <- (B -> Y | Y),  C -> W : conditioning on W opens the collider C only while W descends from C
        if n >= 6 and r.random() < 0.6:
            a, b, x, c, y, w = nodes[:6]
            parents[x], parents[c], parents[y], parents[w] = [a], [a, b], [b], [c]
            rest = nodes[6:]
        else:
            a, x, c, y, w = nodes[:5]
            parents[x], parents[c], parents[w] = [a], [a, y], [c]
            rest = nodes[5:]
        if r.random() < 0.3:
            parents[y] = parents[y] + [x]
        for v in rest:
            parents[v] = [r.choice([w, c])] if r.random() < 0.5 else []
        out = {"xy": [x, y], "w": w, "latents": None}
    else:
        # U -> X -> L -> D -> Y, U -> D with L unobserved: D blocks the back-door path but descends from X through L
        u, x, l, d, y = nodes[:5]
        parents[x], parents[l], parents[d], parents[y] = [u], [x], [u, l], [d]
        if r.random() < 0.4:
            parents[y] = parents[y] + [x]
        for v in nodes[5:]:
            parents[v] = [r.choice([u, d, y])] if r.random() < 0.5 else []
        out = {"xy": [x, y], "w": None, "latents": [l]}
    for v in range(n):
        ps = [p for p in parents[v]]
        r.shuffle(ps)
        world["parents"][v] = ps
        world["tables"][v] = W.gen_table(r, card[v], [card[p] for p in ps])
    world["flags"]["motif"] = kind
    return out


def describe(case):
    w = case["world"]
    return {"n": w["n"], "card": w["card"], "parents": w["parents"], "labels": w["labels"], "latents": w["latents"], "ops": case["ops"]}


# --------------------------------------------------------------------------------------------------
def edges_of(world):
    return [(p, v) for v in range(world["n"]) for p in world["parents"][v]]


def descendants(n, edges, xs):
    out = set()
    st = list(xs)
    while st:
        a = st.pop()
        for (u, v) in edges:
            if u == a and v not in out:
                out.add(v)
                st.append(v)
    return out


def backdoor_valid(n, edges, x, y, z):
    """Back-door criterion: no member of z descends from x, and z blocks every path between x and y that enters x."""
    if set(z) & descendants(n, edges, [x]):
        return False
    if y in z or x in z:
        return False
    g = [(a, b) for a, b in edges if a != x]
    return dsep(n, g, x, y, z)


def directed_paths(n, edges, a, b):
    out = []

    def rec(path):
        last = path[-1]
        if last == b:
            out.append(list(path))
            return
        for (u, v) in edges:
            if u == last and v not in path:
                rec(path + [v])
    rec([a])
    return out


def frontdoor_valid(n, edges, x, y, z):
    z = list(z)
    paths = directed_paths(n, edges, x, y)
    if not paths or not z:
        return False if not paths else all(False for _ in [0])
    if any(not any(v in p for v in z) for p in paths):
        return False
    gx = [(a, b) for a, b in edges if a != x]
    for zz in z:
        if not dsep(n, gx, x, zz, []):
            return False
    for zz in z:
        gz = [(a, b) for a, b in edges if a != zz]
        if not dsep(n, gz, zz, y, [x]):
            return False
    return True


def do_posterior(world, do, yvars):
    """P(yvars | do(X = x)) by truncated factorisation."""
    n = world["n"]
    card = world["card"]
    arr = np.ones(tuple(card), dtype=float)
    for v in range(n):
        if v in do:
            continue
        arr = arr * RefJoint._bn_factor(world, v)
    idx = [slice(None)] * n
    for x, s in do.items():
        idx[x] = slice(s, s + 1)
    arr = arr[tuple(idx)]
    others = tuple(v for v in range(n) if v not in yvars)
    m = arr.sum(axis=others)
    srt = sorted(yvars)
    return srt, m / m.sum()


def _explained_by_default_adjustment(world, do, ys, got):
    """sum_z P(y | do-values overridden by z, z) P(z), z over the union of the do-variables' parents (what the engine documents
    as its default), normalised - computed on the reference joint."""
    try:
        ref = RefJoint.from_bn(world)
        card = world["card"]
        zs = sorted(set(p for x in do for p in world["parents"][x]))
        if not zs:
            return False
        pz = ref.posterior(zs, {})
        acc = None
        for comb in itertools.product(*[range(card[z]) for z in zs]):
            ev = dict(do)
            ev.update(dict(zip(zs, comb)))
            if any(y in ev for y in ys) or ref.prob_evidence(ev) <= 0:
                return False
            term = ref.posterior(sorted(ys), ev) * float(pz[tuple(comb)])
            acc = term if acc is None else acc + term
        acc = acc / acc.sum()
        return acc.shape == np.asarray(got).shape and close(np.asarray(got), acc, atol=1e-9, rtol=1e-6)
    except Exception:
        return False


def execute(case, ctx):
    from pgmpy.inference import CausalInference

    world, config = case["world"], case["config"]
    names = Names(world)
    n = world["n"]
    card = world["card"]
    edges = edges_of(world)
    lat = set(world.get("latents", []))
    model = build_bn(world, config, names)
    L = names.L
    ctx.fault("relabel")
    ctx.sig_order("labels", [names.lab2idx[x] for x in set(names.labels)])
    ci = CausalInference(model)
    pristine = snapshot_bn(model)
    for i, op in enumerate(case["ops"]):
        ctx.step_no = i
        ctx.steps += 1
        k = op["op"]
        try:
            if k == "do" and op.get("keep") and op.get("inplace"):
                nfail = len(ctx.failures)
                _do(ctx, op, world, names, model)
                if len(ctx.failures) != nfail:
                    return
                # the history goes on with the operated network: the reference world gets the same surgery
                world = copy.deepcopy(world)
                for v in op["nodes"]:
                    if v < n and world["parents"][v]:
                        tab = world["tables"][v]
                        world["tables"][v] = [[sum(row) / len(row)] for row in tab]
                        world["parents"][v] = []
                edges = edges_of(world)
                config = dict(config, edge_order=[e for e in config["edge_order"] if (e[0], e[1]) in set(edges)])
                pristine = snapshot_bn(model)
                ctx.fault("object_history")
                ci = CausalInference(model)
                continue
            if k == "replace_cpd":
                v = op["node"]
                if v >= n or len(op["table"]) != card[v] or len(op["table"][0]) != int(np.prod([card[p] for p in world["parents"][v]] or [1])):
                    continue
                world = copy.deepcopy(world)
                world["tables"][v] = op["table"]
                model.add_cpds(make_cpd(world, names, v))
                model.check_model()
                pristine = snapshot_bn(model)
                ctx.event("replace_cpd", v)
                ctx.fault("object_history")
                continue  # the engine object `ci` stays: it must answer for the network as it is now
            if k == "do":
                _do(ctx, op, world, names, model)
                model = build_bn(world, config, names) if snapshot_bn(model) != pristine else model
                if snapshot_bn(model) == pristine and op.get("inplace"):
                    pass
                ci = CausalInference(model)
            elif k in ("query", "refused"):
                _query(ctx, op, world, names, model, ci, edges, lat, k == "refused")
                if snapshot_bn(model) != pristine:
                    ctx.fail("original_unchanged", f"{PROP}:query_changed_model", {"op": op})
                    model = build_bn(world, config, names)
                    ci = CausalInference(model)
            else:
                _criteria(ctx, op, world, names, ci, edges, lat)
        except Exception as e:
            ctx.fail("succeeds", f"{PROP}:raise:{k}:{type(e).__name__}:{exc_site(e)}", exc_brief(e))


def _do(ctx, op, world, names, model):
    n = world["n"]
    nodes = [v for v in op["nodes"] if v < n]
    if not nodes:
        return
    before = snapshot_bn(model)
    ctx.event("do", nodes, op["inplace"])
    lst = [names.L(v) for v in nodes]
    arg = [lst, tuple(lst), set(lst), dict.fromkeys(lst).keys(), iter(lst), (y for y in lst)][op["pick"] % 6]   # any iterable of nodes
    res = model.do(arg, inplace=op["inplace"])
    ctx.checked += 1
    target = model if op["inplace"] else res
    if not op["inplace"] and snapshot_bn(model) != before:
        ctx.fail("original_unchanged", f"{PROP}:do_changed_original", {"nodes": nodes})
    want_edges = sorted((p, v) for v in range(n) for p in world["parents"][v] if v not in nodes)
    got_edges = sorted((names.lab2idx[a], names.lab2idx[b]) for a, b in target.edges())
    if got_edges != want_edges or sorted(names.lab2idx[x] for x in target.nodes()) != list(range(n)):
        ctx.fail("surgery", f"{PROP}:do_edges", {"nodes": nodes, "got": got_edges, "want": want_edges})
        return
    for v in range(n):
        cpd = target.get_cpds(names.L(v))
        if cpd is None:
            ctx.fail("surgery", f"{PROP}:do_missing_cpd", {"var": v})
            return
        if v in nodes:
            vals = to_np(cpd.values)
            if list(cpd.variables) != [names.L(v)] or vals.ndim != 1 or not close(vals.sum(), 1.0, atol=1e-9) or np.any(vals < 0):
                ctx.fail("surgery", f"{PROP}:do_cpd_not_parent_free", {"var": v, "variables": [repr(x) for x in cpd.variables], "values": vals.round(6).tolist()})
                return
        else:
            try:
                lv, arr = factor_to_logical(cpd.to_factor(), names, expect_vars=[v] + list(world["parents"][v]))
            except Mismatch as e:
                ctx.fail("surgery", f"{PROP}:do_other_cpd_changed", {"var": v, "why": str(e)})
                return
            want = RefJoint._bn_factor(world, v).reshape([world["card"][u] for u in sorted([v] + list(world["parents"][v]))])
            if not close(arr, want, atol=1e-12, rtol=1e-9):
                ctx.fail("surgery", f"{PROP}:do_other_cpd_changed", {"var": v, "maxdiff": maxdiff(arr, want)})
                return
    # a second intervention on the result must not reach back into the first model (copy-based surgery)
    if not op["inplace"] and n > len(nodes):
        snap_res = snapshot_bn(res)
        other = [v for v in range(n) if v not in nodes][op["pick"] % (n - len(nodes))]
        model.do([names.L(other)], inplace=False).do([names.L(nodes[0])], inplace=True)
        res.do([names.L(other)], inplace=True)
        if snapshot_bn(model) != before:
            ctx.fail("original_unchanged", f"{PROP}:do_result_shares_state_with_original", {"nodes": nodes, "then": other})
        del snap_res


def _pick_valid_adjustment(op, n, edges, lat, x, ys):
    cands = [v for v in range(n) if v != x and v not in ys and v not in lat and v not in descendants(n, edges, [x])]
    valid = []
    for k in range(len(cands) + 1):
        for z in itertools.combinations(cands, k):
            if all(backdoor_valid(n, edges, x, y, z) for y in ys):
                valid.append(list(z))
    if not valid:
        return None
    return valid[op["pick"] % len(valid)]


def _query(ctx, op, world, names, model, ci, edges, lat, refused):
    n = world["n"]
    card = world["card"]
    do = {int(a): int(b) for a, b in op["do"].items() if int(a) < n and int(b) < card[int(a)]}
    if not do:
        return
    L = names.L
    pa = set(p for x in do for p in world["parents"][x])
    if refused:
        # query variable inside the do-set: must not corrupt the engine (the next queries are checked as usual)
        ctx.fault("reject_op")
        ctx.event("refused_query", sorted(do))
        try:
            ci.query([L(sorted(do)[0])], do={L(x): names.S(x, s) for x, s in do.items()}, show_progress=False, inference_algo=op["algo"])
            ctx.probe("refused_query_answered")
        except Exception:
            ctx.probe("refused_query_raised")
        return
    cand_y = [v for v in range(n) if v not in do and v not in pa]
    if not cand_y:
        return
    import random as _r

    rr = _r.Random(op["pick"])
    ys = rr.sample(cand_y, min(op["ny"], len(cand_y)))
    adj = None
    if pa & lat and op["adjust"] == "default":
        return  # the engine refuses by design (unobserved parents without an adjustment set)
    if op["adjust"] != "default":
        if len(do) != 1:
            return
        x = next(iter(do))
        z = _pick_valid_adjustment(op, n, edges, lat, x, ys)
        if z is None:
            return
        if op["adjust"] == "empty_if_valid":
            if not all(backdoor_valid(n, edges, x, y, []) for y in ys):
                return
            z = []
        adj = z
    if len(do) > 1:
        ctx.probe("multiple_do_variables")
        if any(a in world["parents"][b] for a in do for b in do):
            ctx.probe("parent_child_do_pair")
    algo = op["algo"] if W.is_connected_bn(world) else "ve"  # the BP back-end refuses disconnected models by design
    ctx.event("query", sorted(do.items()), ys, adj, algo)
    kw = {}
    if adj is not None:
        kw["adjustment_set"] = set(L(v) for v in adj)
    do_arg = {L(x): names.S(x, s) for x, s in do.items()}
    do_before = sorted((repr(a), repr(b)) for a, b in do_arg.items())
    try:
        res = ci.query([L(y) for y in ys], do=do_arg, inference_algo=algo, show_progress=False, **kw)
    except Exception as e:
        sig = f"{PROP}:raise:query:{type(e).__name__}:{exc_site(e)}"
        ctx.fail("succeeds", sig, {"exc": exc_brief(e), "do": sorted(do.items()), "y": ys, "adj": adj, "algo": algo, "parents": world["parents"]})
        return
    ctx.checked += 1
    if sorted((repr(a), repr(b)) for a, b in do_arg.items()) != do_before:
        # the caller's dict would carry the leaked entries into the next question
        ctx.fail("original_unchanged", f"{PROP}:query_changed_do_argument", {"before": do_before, "after": sorted((repr(a), repr(b)) for a, b in do_arg.items())})
    try:
        lv, arr = factor_to_logical(res, names, expect_vars=ys)
    except Mismatch as e:
        ctx.fail("labels", f"{PROP}:labels:query", str(e))
        return
    srt, want = do_posterior(world, do, ys)
    if not close(arr, want, atol=1e-9, rtol=1e-6):
        sig = f"{PROP}:value:query"
        if len(do) > 1 and adj is None and _explained_by_default_adjustment(world, do, ys, arr):
            # explained-by predicate of the open finding: the answer IS the documented adjustment formula over the union of the
            # do-variables' parents, which is not a valid adjustment set for this joint intervention; any other deviation alarms
            sig = f"{PROP}:value:query_multi_do_default_adjustment"
        ctx.fail("truncated_factorisation", sig, {"do": sorted(do.items()), "y": ys, "adj": adj, "algo": algo, "got": arr.round(6).tolist(), "want": want.round(6).tolist(),
                                                  "parents": world["parents"], "latents": sorted(lat)})


def _criteria(ctx, op, world, names, ci, edges, lat):
    n = world["n"]
    x, y = op["x"], op["y"]
    if x >= n or y >= n or x == y or x in lat or y in lat:
        return
    L = names.L
    k = op["op"]
    import random as _r

    rr = _r.Random(op["pick"])
    nondesc = [v for v in range(n) if v not in (x, y) and v not in lat and v not in descendants(n, edges, [x])]
    ctx.event(k, x, y)
    if k == "backdoor":
        z = rr.sample(nondesc, rr.randint(0, len(nondesc)))
        if op.get("z") is not None and all(v in nondesc for v in op["z"]):
            z = list(op["z"])
        got = bool(ci.is_valid_backdoor_adjustment_set(L(x), L(y), [L(v) for v in z]))
        want = backdoor_valid(n, edges, x, y, z)
        ctx.checked += 1
        if got != want:
            ctx.fail("criterion", f"{PROP}:backdoor_test_disagrees", {"x": x, "y": y, "z": z, "got": got, "want": want, "edges": edges})
        got2 = bool(ci.is_valid_adjustment_set([L(x)], [L(y)], [L(v) for v in z]))
        # for sets of non-descendants the generalised adjustment criterion coincides with back-door, unless y is not a descendant of x
        if y in descendants(n, edges, [x]) and got2 != want:
            ctx.fail("criterion", f"{PROP}:adjustment_test_disagrees", {"x": x, "y": y, "z": z, "got": got2, "want": want, "edges": edges})
    elif k == "all_backdoor":
        try:
            sets = ci.get_all_backdoor_adjustment_sets(L(x), L(y))
        except ValueError:
            # documented: raised when no valid set exists
            any_valid = any(backdoor_valid(n, edges, x, y, z) for r_ in range(len(nondesc) + 1) for z in itertools.combinations(nondesc, r_))
            ctx.checked += 1
            if any_valid:
                ctx.fail("criterion", f"{PROP}:backdoor_sets_missing", {"x": x, "y": y, "edges": edges})
            return
        ctx.checked += 1
        if isinstance(sets, frozenset) and len(sets) == 0:
            sets = [frozenset()]
        for s in sets:
            z = [names.lab2idx[v] for v in s]
            if not backdoor_valid(n, edges, x, y, z):
                ctx.fail("criterion", f"{PROP}:enumerated_backdoor_set_invalid", {"x": x, "y": y, "z": z, "edges": edges})
                return
    elif k == "frontdoor":
        cand = [v for v in range(n) if v not in (x, y) and v not in lat]
        if not cand:
            return
        z = rr.sample(cand, min(len(cand), rr.choice([1, 1, 2, 2, 3])))
        got = bool(ci.is_valid_frontdoor_adjustment_set(L(x), L(y), [L(v) for v in z]))
        want = frontdoor_valid(n, edges, x, y, z)
        ctx.checked += 1
        if got != want:
            ctx.fail("criterion", f"{PROP}:frontdoor_test_disagrees", {"x": x, "y": y, "z": z, "got": got, "want": want, "edges": edges})
        for s in ci.get_all_frontdoor_adjustment_sets(L(x), L(y)):
            zz = [names.lab2idx[v] for v in s]
            if zz and not frontdoor_valid(n, edges, x, y, zz):
                ctx.fail("criterion", f"{PROP}:enumerated_frontdoor_set_invalid", {"x": x, "y": y, "z": zz, "edges": edges})
                return
    elif k == "minimal":
        if lat or y not in descendants(n, edges, [x]):
            return
        res = ci.get_minimal_adjustment_set(L(x), L(y))
        ctx.checked += 1
        if res is None:
            return
        z = [names.lab2idx[v] for v in res]
        if not backdoor_valid(n, edges, x, y, z):
            desc = bool(set(z) & descendants(n, edges, [x]))
            ctx.fail("criterion", f"{PROP}:minimal_adjustment_set_invalid" + (":contains_descendant_of_treatment" if desc else ""),
                     {"x": x, "y": y, "z": z, "edges": edges})


def shrink_candidates(case):
    from . import c01

    w = case["world"]
    if w.get("latents"):
        out = copy.deepcopy(case)
        out["world"]["latents"] = []
        yield out
    for c in c01.shrink_candidates({"world": w, "config": case["config"], "ops": []}):
        if any(not isinstance(l, str) for l in c["world"]["labels"]):
            continue
        out = copy.deepcopy(case)
        out["world"], out["config"] = c["world"], c["config"]
        out["world"]["latents"] = w.get("latents", [])
        yield out
    for i, op in enumerate(case["ops"]):
        if op["op"] == "query":
            if op["algo"] != "ve":
                out = copy.deepcopy(case)
                out["ops"][i]["algo"] = "ve"
                yield out
            if len(op["do"]) > 1:
                for key in list(op["do"]):
                    out = copy.deepcopy(case)
                    del out["ops"][i]["do"][key]
                    yield out
