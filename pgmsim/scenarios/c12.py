"""C12 - constraint-based discovery is exact given exact independence information.

Simulated: the order in which node pairs are visited and orientation rules fire is graph / set order
(labels x PYTHONHASHSEED x column order); the 'parallel' variant runs under the SimParallel stub (its task closure reads
the live graph; pickle isolation hands it a copy).  Oracle: d-separation on the ground-truth DAG; brute-force CPDAG."""
import copy
import itertools
import random

import numpy as np

from .. import seams, world as W
from ..core import exc_brief, exc_site
from ..prng import shuffled, weighted
from ..realise import Names
from ..refmodel import all_dags_same_class, cpdag, dsep, is_acyclic, skeleton, vstructures

PROP = "C12"


def gen_dag(r, n):
    order = shuffled(r, range(n))
    dens = r.choice([0.25, 0.45, 0.7])
    es = []
    if n >= 4 and r.random() < 0.35:
        # collider with a chain of compelled edges below it (orientation has to propagate rule by rule)
        k = 2 if n < 6 or r.random() < 0.7 else 3
        parents, rest = order[:k], order[k:]
        for p in parents:
            es.append([p, rest[0]])
        for a, b in zip(rest, rest[1:]):
            es.append([a, b])
        extra = r.choice([0.0, 0.0, 0.15])
        for i in range(n):
            for j in range(i):
                if r.random() < extra and [order[j], order[i]] not in es and not (order[j] in parents and order[i] in parents):
                    es.append([order[j], order[i]])
        return shuffled(r, es)
    if n >= 6 and r.random() < 0.12:
        # a sink W with several unshielded collider pairs, one of which (X, Y) compels Z -> W by the third orientation rule only
        # (Z - X, Z - Y stay undirected); the other pair (A, B) points into everything.  Which collider pair of W a rule meets
        # first depends on the column order / hash seed.
        a, b, z, x, y, w = order[:6]
        es = [[a, z], [b, z], [a, x], [b, x], [a, y], [b, y], [z, x], [z, y], [x, w], [y, w], [a, w], [b, w], [z, w]]
        for o in order[6:]:
            if r.random() < 0.5:
                es.append([o, r.choice([a, b])] if r.random() < 0.5 else [w, o])
        return shuffled(r, es)
    if n >= 5 and r.random() < 0.3:
        # a clique whose internal orientations are only partly compelled from outside: outsiders point into some clique members
        # (orientation rules whose premises need NON-adjacent parents meet plenty of adjacent ones here)
        k = min(n - 2, r.choice([3, 4]))
        clique, outside = order[:k], order[k:]
        for i in range(k):
            for j in range(i):
                es.append([clique[j], clique[i]])
        if len(outside) >= 2 and r.random() < 0.6:
            # a collider M outside the clique: early clique members and an unrelated node T point to M, M points to some late members.
            # M -> W is compelled, the clique edges into W follow by acyclicity, and what happens to W's remaining clique edges
            # depends on the order in which the orientation rules fire
            m, t = outside[0], outside[1]
            cut = r.randint(1, k - 1)
            for c in clique[:cut]:
                es.append([c, m])
            es.append([t, m])
            late = [c for c in clique[cut:] if r.random() < 0.5] or [clique[cut]]
            for c in late:
                es.append([m, c])
            for o in outside[2:]:
                es.append([o, r.choice(clique)])
            return shuffled(r, es)
        for o in outside:
            for c in r.sample(clique, r.randint(1, 2)):
                es.append([o, c] if r.random() < 0.8 else [c, o])
        for a, b in itertools.combinations(outside, 2):
            if r.random() < 0.3:
                es.append([a, b])
        if is_acyclic(n, [tuple(e) for e in es]):
            return shuffled(r, es)
        es = []
    for i in range(n):
        for j in range(i):
            if r.random() < dens:
                es.append([order[j], order[i]])
    return shuffled(r, es)


def generate(streams, tier):
    big = tier == "thorough"
    r = streams.s("world")
    n = 6 if r.random() < (0.35 if big else 0.3) else r.randint(2, 6 if big else 5)
    edges = gen_dag(r, n)
    rl = streams.s("labels")
    labels, _ = W.gen_labels(rl, n, weighted(rl, [("str", 3), ("short", 3), ("prefix", 1), ("int", 2)]))
    if labels and all(isinstance(x, int) for x in labels) and rl.random() < 0.6:
        labels = shuffled(rl, range(n))   # the columns of a frame built from an array: 0..n-1, with the falsy 0 among them
    rw = streams.s("workload")
    ops = []
    for _ in range(rw.randint(1, 4)):
        if rw.random() < 0.55:
            ops.append({"op": "pc", "variant": rw.choice(["orig", "stable", "parallel"]), "ci": rw.choice(["match", "callable"]),
                        "return_type": rw.choice(["skeleton", "pdag", "cpdag", "dag"]), "n_jobs": rw.choice([1, 2, -1]), "jobseed": rw.randrange(2**31),
                        "build": rw.choice(["at_once", "stepwise"]), "max_cond": rw.choice(["n", "max_degree", "max_degree"]),
                        "col_order": shuffled(rw, range(n))})
        else:
            # PDAG extension: a CPDAG of a random DAG, possibly with extra orientations / de-orientations
            m = rw.randint(3, 5)
            es = gen_dag(rw, m)
            ops.append({"op": "to_dag", "m": m, "dag": es, "mode": rw.choice(["cpdag", "orient_more", "orient_more", "deorient", "deorient", "deorient", "deorient", "random", "random"]), "pick": rw.randrange(10**6),
                        "order": shuffled(rw, range(m)), "reps": 8, "names": weighted(rw, [("str", 4), ("int0", 3), ("falsy", 2)])})
    return {"n": n, "edges": edges, "labels": labels, "ops": ops}


def describe(case):
    return {"n": case["n"], "edges": case["edges"], "labels": case["labels"], "ops": case["ops"]}


def execute(case, ctx):
    n = case["n"]
    edges = [tuple(e) for e in case["edges"] if e[0] < n and e[1] < n and e[0] != e[1]]
    if not is_acyclic(n, edges):
        return
    labels = case["labels"][:n]
    lab2idx = {l: i for i, l in enumerate(labels)}
    ctx.fault("relabel")
    ctx.sig_order("labels", [lab2idx[x] for x in set(labels)])
    for i, op in enumerate(case["ops"]):
        ctx.step_no = i
        ctx.steps += 1
        try:
            if op["op"] == "pc":
                _pc(case, ctx, op, n, edges, labels, lab2idx)
            else:
                for rep in range(op.get("reps", 1)):
                    _to_dag(ctx, dict(op, pick=op["pick"] + 7919 * rep))
        finally:
            seams.reset_environment()


def _pc(case, ctx, op, n, edges, labels, lab2idx):
    import pandas as pd
    from pgmpy.estimators import PC
    from pgmpy.independencies import IndependenceAssertion, Independencies

    sk = skeleton(edges)
    calls = [0]
    if op["ci"] == "match" and not all(isinstance(x, str) for x in labels):
        op = dict(op, ci="callable")   # Independencies objects take string names only
    if op["ci"] == "match":
        # every true pairwise statement (X _|_ Y | Z) with singleton X, Y: independence_match tests exact membership
        stmts = []
        for a, b in itertools.combinations(range(n), 2):
            others = [v for v in range(n) if v not in (a, b)]
            for k in range(len(others) + 1):
                for z in itertools.combinations(others, k):
                    if dsep(n, edges, a, b, z):
                        stmts.append((a, b, z))
        mentioned = {v for a, b, z in stmts for v in (a, b) + tuple(z)}
        if mentioned != set(range(n)):
            ctx.probe("match_skipped_variable_not_in_any_statement")
            return  # the independence list does not even name every variable: the input does not determine the node set
        ind = Independencies()
        asserts = [IndependenceAssertion(labels[a], labels[b], [labels[v] for v in z]) for a, b, z in stmts]
        if op.get("build", "at_once") == "at_once" or len(asserts) < 2:
            ind.add_assertions(*asserts)
        else:
            # the list is built up in steps with membership questions in between (the object has a history before PC sees it)
            rb = random.Random(op["jobseed"] ^ 0x5A5A)
            rb.shuffle(asserts)
            cut = rb.randint(1, len(asserts) - 1)
            ind.add_assertions(*asserts[:cut])
            for a_ in rb.sample(asserts, min(3, len(asserts))):
                (a_ in ind) if rb.random() < 0.5 else ind.contains(a_)
            ind.add_assertions(*asserts[cut:])
            ctx.fault("object_history")
        est = PC(independencies=ind)
        ci = "independence_match"
    else:
        cols = [c for c in op["col_order"] if c < n]
        df = pd.DataFrame({labels[c]: [0, 1] for c in cols}, columns=[labels[c] for c in cols])

        def oracle(X, Y, Z, data=None, independencies=None, significance_level=None, **kw):
            calls[0] += 1
            return dsep(n, edges, lab2idx[X], lab2idx[Y], [lab2idx[z] for z in Z])

        est = PC(data=df)
        ci = oracle
    seams.install_parallel(random.Random(op["jobseed"]), ctx)
    ctx.event("pc", op["variant"], op["ci"], op["return_type"], op["n_jobs"])
    ctx.fault("option_swarm")
    try:
        # the bound on the conditioning-set size: generous (n) or exactly the largest degree of the true skeleton, the smallest
        # value for which the property claims exactness
        mcv = n
        if op.get("max_cond") == "max_degree":
            deg = {v: 0 for v in range(n)}
            for a, b in edges:
                deg[a] += 1
                deg[b] += 1
            mcv = max(deg.values()) if deg else 0
            ctx.probe("max_cond_vars_at_boundary")
        res = est.estimate(variant=op["variant"], ci_test=ci, max_cond_vars=mcv, return_type=op["return_type"], n_jobs=op["n_jobs"], show_progress=False)
    except Exception as e:
        ctx.fail("succeeds", f"{PROP}:raise:pc:{type(e).__name__}:{exc_site(e)}", {"exc": exc_brief(e), "variant": op["variant"], "return_type": op["return_type"]})
        return
    ctx.checked += 1
    detail = {"truth": sorted(edges), "variant": op["variant"], "ci": op["ci"], "return_type": op["return_type"]}
    try:
        if op["return_type"] == "skeleton":
            g, seps = res
            got = {frozenset((lab2idx[a], lab2idx[b])) for a, b in g.edges()}
            if got != sk or sorted(lab2idx[x] for x in g.nodes()) != list(range(n)):
                ctx.fail("skeleton", f"{PROP}:skeleton", dict(detail, got=sorted(map(sorted, got)), want=sorted(map(sorted, sk))))
                return
            for a, b in itertools.combinations(range(n), 2):
                if frozenset((a, b)) in sk:
                    continue
                key = frozenset((labels[a], labels[b]))
                if key not in seps:
                    ctx.fail("separating_sets", f"{PROP}:sepset_missing", dict(detail, pair=[a, b]))
                    return
                z = [lab2idx[x] for x in seps[key]]
                if not dsep(n, edges, a, b, z):
                    ctx.fail("separating_sets", f"{PROP}:sepset_wrong", dict(detail, pair=[a, b], sepset=z))
                    return
        elif op["return_type"] in ("pdag", "cpdag"):
            es = {(lab2idx[a], lab2idx[b]) for a, b in res.edges()}
            got_dir = {(a, b) for a, b in es if (b, a) not in es}
            got_und = {frozenset((a, b)) for a, b in es if (b, a) in es}
            want_dir, want_und = cpdag(n, edges)
            if sorted(lab2idx[x] for x in res.nodes()) != list(range(n)) or {frozenset(e) for e in es} != sk:
                ctx.fail("skeleton", f"{PROP}:skeleton", dict(detail, got=sorted(map(sorted, {frozenset(e) for e in es})), want=sorted(map(sorted, sk))))
                return
            if got_dir != want_dir or got_und != want_und:
                clause = "cpdag"
                if not is_acyclic(n, list(got_dir)):
                    sig = f"{PROP}:cpdag_directed_cycle"
                elif got_dir - want_dir:
                    sig = f"{PROP}:cpdag_wrong_orientation"
                else:
                    sig = f"{PROP}:cpdag_compelled_edge_unoriented"
                ctx.fail(clause, sig, dict(detail, directed=sorted(got_dir), undirected=sorted(map(sorted, got_und)), want_directed=sorted(want_dir),
                                           want_undirected=sorted(map(sorted, want_und))))
        else:
            es = [(lab2idx[a], lab2idx[b]) for a, b in res.edges()]
            if sorted(lab2idx[x] for x in res.nodes()) != list(range(n)):
                ctx.fail("skeleton", f"{PROP}:dag_nodes", dict(detail, nodes=[repr(x) for x in res.nodes()]))
                return
            if not is_acyclic(n, es) or len(set(es)) != len({frozenset(e) for e in es}):
                ctx.fail("member_of_class", f"{PROP}:dag_cyclic", dict(detail, got=sorted(es)))
            elif skeleton(es) != sk:
                ctx.fail("skeleton", f"{PROP}:skeleton", dict(detail, got=sorted(map(sorted, skeleton(es))), want=sorted(map(sorted, sk))))
            elif vstructures(n, es) != vstructures(n, edges):
                ctx.fail("member_of_class", f"{PROP}:dag_not_in_class", dict(detail, got=sorted(es), vs_got=sorted(vstructures(n, es)), vs_want=sorted(vstructures(n, edges))))
    except KeyError as e:
        ctx.fail("skeleton", f"{PROP}:unknown_node", repr(e))


def _pdag_parts(op):
    """(m, directed list, undirected list of pairs) for a to_dag op, from the explicit description."""
    m = op["m"]
    es = [tuple(e) for e in op["dag"] if e[0] < m and e[1] < m and e[0] != e[1]]
    if not is_acyclic(m, es):
        return None
    d, u = cpdag(m, es)
    d, u = set(d), {tuple(sorted(x)) for x in u}
    rr = random.Random(op["pick"])
    if op["mode"] == "orient_more" and u:
        # orient some undirected edges the way the generating DAG has them (still extendable: the DAG itself is an extension)
        for e in sorted(u):
            if rr.random() < 0.5:
                u.discard(e)
                d.add(e if e in es else (e[1], e[0]))
    elif op["mode"] == "deorient":
        # the generating DAG with a random subset of its edges made undirected
        d, u = set(), set()
        for e in sorted(es):
            if rr.random() < 0.4:
                u.add(tuple(sorted(e)))
            else:
                d.add(e)
    elif op["mode"] == "random":
        # arbitrary PDAG on the same skeleton: every edge directed either way or left undirected
        d, u = set(), set()
        for a, b in sorted({tuple(sorted(e)) for e in es}):
            k = rr.randrange(3)
            if k == 0:
                u.add((a, b))
            elif k == 1:
                d.add((a, b))
            else:
                d.add((b, a))
    return m, sorted(d), sorted(u)


def pdag_vstructs(m, d, sk):
    out = set()
    pa = {v: {a for a, b in d if b == v} for v in range(m)}
    for c in range(m):
        for a, b in itertools.combinations(sorted(pa[c]), 2):
            if frozenset((a, b)) not in sk:
                out.add((a, c, b))
    return out


def consistent_extensions(m, d, u):
    sk = {frozenset(e) for e in d} | {frozenset(e) for e in u}
    base_vs = pdag_vstructs(m, d, sk)
    out = []
    for bits in itertools.product([0, 1], repeat=len(u)):
        es = list(d) + [(a, b) if bit == 0 else (b, a) for (a, b), bit in zip(u, bits)]
        if is_acyclic(m, es) and vstructures(m, es) == base_vs:
            out.append(es)
    return out


def _to_dag(ctx, op):
    from pgmpy.base import PDAG

    parts = _pdag_parts(op)
    if parts is None:
        return
    m, d, u = parts
    if not is_acyclic(m, d):
        return
    names = ["n%d" % i for i in range(m)]
    if op.get("names") == "int0":
        names = list(range(m))                       # 0 is a vertex like any other
        random.Random(op["pick"] + 3).shuffle(names)
    elif op.get("names") == "falsy":
        names = ["", "a", "b", "c", "d", "e"][:m]    # the empty string is a legal (falsy) node name
        random.Random(op["pick"] + 3).shuffle(names)
    ext = consistent_extensions(m, d, u)
    if not ext:
        ctx.probe("pdag_not_extendable_skipped")
        return
    order = [x for x in op["order"] if x < m]
    rr = random.Random(op["pick"] + 1)
    dl = [(names[a], names[b]) for a, b in d]
    ul = [(names[a], names[b]) if rr.random() < 0.5 else (names[b], names[a]) for a, b in u]
    rr.shuffle(dl)
    rr.shuffle(ul)
    ctx.event("to_dag", m, d, u, op["mode"])
    try:
        p = PDAG(directed_ebunch=dl, undirected_ebunch=ul)
        p.add_nodes_from([names[x] for x in order])
        res = p.to_dag()
    except Exception as e:
        ctx.fail("succeeds", f"{PROP}:raise:to_dag:{type(e).__name__}:{exc_site(e)}", exc_brief(e))
        return
    ctx.checked += 1
    if op["mode"] != "cpdag":
        ctx.probe("non_cpdag_pdag_extended")
    idx = {x: i for i, x in enumerate(names)}
    es = [(idx[a], idx[b]) for a, b in res.edges()]
    sk = {frozenset(e) for e in d} | {frozenset(e) for e in u}
    detail = {"directed": d, "undirected": u, "result": sorted(es), "mode": op["mode"]}
    if not is_acyclic(m, es) or len(set(es)) != len({frozenset(e) for e in es}):
        ctx.fail("extension", f"{PROP}:to_dag_cyclic", detail)
    elif skeleton(es) != sk:
        ctx.fail("extension", f"{PROP}:to_dag_skeleton", detail)
    elif any(e not in es for e in d):
        ctx.fail("extension", f"{PROP}:to_dag_dropped_directed_edge", detail)
    elif vstructures(m, es) != pdag_vstructs(m, d, sk):
        ctx.fail("extension", f"{PROP}:to_dag_new_v_structure", dict(detail, vs=sorted(vstructures(m, es)), vs_pdag=sorted(pdag_vstructs(m, d, sk))))


def shrink_candidates(case):
    n = case["n"]
    for j in range(len(case["edges"])):
        out = copy.deepcopy(case)
        del out["edges"][j]
        yield out
    if any(l != "v%d" % i for i, l in enumerate(case["labels"])):
        out = copy.deepcopy(case)
        out["labels"] = ["v%d" % i for i in range(len(case["labels"]))]
        yield out
    for i, op in enumerate(case["ops"]):
        if op["op"] == "pc":
            if op["n_jobs"] != 1:
                out = copy.deepcopy(case)
                out["ops"][i]["n_jobs"] = 1
                yield out
            if op["col_order"] != sorted(op["col_order"]):
                out = copy.deepcopy(case)
                out["ops"][i]["col_order"] = sorted(op["col_order"])
                yield out
        else:
            if op.get("reps", 1) > 1:
                for rep in range(op["reps"]):
                    out = copy.deepcopy(case)
                    out["ops"][i]["reps"] = 1
                    out["ops"][i]["pick"] = op["pick"] + 7919 * rep
                    yield out
            for j in range(len(op["dag"])):
                out = copy.deepcopy(case)
                del out["ops"][i]["dag"][j]
                yield out
