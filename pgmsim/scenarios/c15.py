"""C15 - structural consistency under edit histories.

A stateful machine per model kind (BayesianNetwork incl. DAG construction, DynamicBayesianNetwork,
MarkovNetwork, JunctionTree).  Every op is total: the reference model decides, for whatever state the op
meets, whether it must be accepted, must be refused or may be either, and what the state is afterwards.
Invariants after every step: acyclicity; a refused single op leaves the target unchanged; non-target live
models never change (copies share nothing); after remove_node / do on a consistent model every remaining
CPD is a valid conditional over exactly its remaining graph parents."""
import copy as _copy
import itertools

import numpy as np

from .. import world as W
from ..core import exc_brief, exc_site
from ..prng import shuffled, subset, weighted
from ..realise import Names, to_np
from ..refmodel import RefJoint, close, has_undirected_cycle, is_acyclic

PROP = "C15"
MAXLIVE = 3


# ==================================================================================================
# generation
# ==================================================================================================
def gen_universe(streams, k=6):
    r = streams.s("world")
    card = [r.choice([1, 2, 2, 2, 3, 3, 4]) for _ in range(k)]
    rl = streams.s("labels")
    labels, mode = W.gen_labels(rl, k)
    smode = weighted(rl, [("default", 3), ("str", 3), ("int", 2), ("mixed", 1)])
    states = [W.gen_states(rl, card[v], smode) for v in range(k)]
    return {"n": k, "card": card, "labels": labels, "states": states, "flags": {"label_mode": mode, "state_mode": smode}}


class GenBN:
    """Tiny simulation of the graph during generation so that valid and invalid arguments can be aimed."""

    def __init__(self, n):
        self.n = n
        self.live = [{"nodes": set(), "edges": set(), "cpd": {}}]

    def has_path(self, g, a, b):
        seen = {a}
        st = [a]
        while st:
            x = st.pop()
            if x == b:
                return True
            for (u, v) in sorted(g["edges"]):
                if u == x and v not in seen:
                    seen.add(v)
                    st.append(v)
        return False


def gen_table(r, universe, v, parents):
    card = universe["card"]
    return W.gen_table(r, card[v], [card[p] for p in parents], zero_rate=r.choice([0, 0, 0.2]), onehot_rate=r.choice([0, 0, 0.2]))


def generate_bn(streams, tier):
    u = gen_universe(streams)
    n = u["n"]
    r = streams.s("workload")
    rf = streams.s("faults")
    sim = GenBN(n)
    ops = []
    nops = r.randint(6, 30 if tier == "quick" else 60)
    fault_rate = r.choice([0.0, 0.1, 0.25, 0.4])
    for _ in range(nops):
        m = r.randrange(len(sim.live))
        g = sim.live[m]
        nodes = sorted(g["nodes"])
        kind = weighted(r, [("add_node", 3), ("add_nodes_from", 1), ("add_edge", 6), ("add_edges_from", 1), ("remove_node", 2),
                            ("remove_nodes_from", 1), ("add_cpds", 6), ("fill_cpds", 2), ("remove_cpds", 1), ("do", 2), ("copy", 2),
                            ("get_random_cpds", 1), ("check_model", 2), ("probe", 2), ("dag_ctor", 1)])
        bad = rf.random() < fault_rate
        op = {"op": kind, "m": m}
        if kind == "add_node":
            op["x"] = r.randrange(n)
            op["latent"] = r.random() < 0.25
            g["nodes"].add(op["x"])
        elif kind == "add_nodes_from":
            op["xs"] = r.sample(range(n), r.randint(1, 3))
            op["latent"] = r.random() < 0.2
            g["nodes"].update(op["xs"])
        elif kind == "add_edge":
            if bad and nodes:
                mode = rf.choice(["self", "cycle", "cycle"])
                if mode == "self":
                    a = rf.choice(nodes)
                    op["u"], op["v"] = a, a
                else:
                    es = sorted(g["edges"])
                    if es:
                        a, b = rf.choice(es)
                        # any descendant of b back to a
                        cand = [x for x in nodes if x != a and sim.has_path(g, b, x)] or [b]
                        op["u"], op["v"] = rf.choice(cand), a
                    else:
                        a = rf.choice(nodes)
                        op["u"], op["v"] = a, a
            else:
                a, b = r.sample(range(n), 2)
                if sim.has_path(g, b, a):
                    a, b = b, a
                op["u"], op["v"] = a, b
                if not sim.has_path(g, b, a):
                    g["nodes"].update([a, b])
                    g["edges"].add((a, b))
                    # a CPD of b, if any, is now stale (fine: the machine tracks that)
        elif kind == "add_edges_from":
            es = []
            for _ in range(r.randint(1, 4)):
                a, b = r.sample(range(n), 2)
                es.append([a, b])
            op["es"] = es
            # the optional `weights` argument takes another code path than plain edge lists
            op["weights"] = r.random() < 0.4
            if r.random() < 0.15:
                es.append([es[0][0], es[0][0]])  # a self loop inside a bulk insertion
            for a, b in es:
                if a != b and not sim.has_path(g, b, a):
                    g["nodes"].update([a, b])
                    g["edges"].add((a, b))
                else:
                    break
        elif kind == "remove_node":
            if bad or not nodes:
                absent = [x for x in range(n) if x not in g["nodes"]]
                op["x"] = rf.choice(absent) if absent else r.randrange(n)
            else:
                op["x"] = r.choice(nodes)
            _sim_remove(g, op["x"])
        elif kind == "remove_nodes_from":
            op["xs"] = r.sample(nodes, min(len(nodes), r.randint(1, 2))) if nodes else [0]
            for x in op["xs"]:
                _sim_remove(g, x)
        elif kind == "add_cpds":
            if bad:
                absent = [x for x in range(n) if x not in g["nodes"]]
                mode = rf.choice(["unknown_var", "stale_parents", "not_a_cpd"])
                if mode == "unknown_var" and absent:
                    v = rf.choice(absent)
                    op.update(v=v, parents=[], table=gen_table(r, u, v, []))
                elif mode == "not_a_cpd":
                    op.update(v=0, parents=[], table=None)
                else:
                    v = rf.choice(nodes) if nodes else 0
                    ps = [p for p in rf.sample(range(n), rf.randint(0, 2)) if p != v]
                    op.update(v=v, parents=ps, table=gen_table(r, u, v, ps))
                    if v in g["nodes"] and all(p in g["nodes"] for p in ps):
                        g["cpd"][v] = set(ps)
            else:
                if not nodes:
                    op.update(v=0, parents=[], table=gen_table(r, u, 0, []))
                else:
                    # prefer nodes whose CPD is missing or stale
                    need = [x for x in nodes if g["cpd"].get(x) != {a for (a, b) in g["edges"] if b == x}]
                    v = r.choice(need) if need and r.random() < 0.8 else r.choice(nodes)
                    ps = shuffled(r, sorted(a for (a, b) in g["edges"] if b == v))
                    op.update(v=v, parents=ps, table=gen_table(r, u, v, ps))
                    g["cpd"][v] = set(ps)
        elif kind == "fill_cpds":
            # one add_cpds call with a correct CPD for every node (bulk op)
            items = []
            for v in nodes:
                ps = shuffled(r, sorted(a for (a, b) in g["edges"] if b == v))
                items.append({"v": v, "parents": ps, "table": gen_table(r, u, v, ps)})
                g["cpd"][v] = set(ps)
            op["items"] = shuffled(r, items)
        elif kind == "remove_cpds":
            have = sorted(g["cpd"])
            if bad or not have:
                op["v"] = r.randrange(n)
            else:
                op["v"] = r.choice(have)
            op["by_object"] = r.random() < 0.5
            g["cpd"].pop(op["v"], None)
        elif kind == "do":
            if bad or not nodes:
                op["xs"] = [r.randrange(n)]
            else:
                op["xs"] = r.sample(nodes, min(len(nodes), r.randint(1, 2)))
            op["inplace"] = r.random() < 0.5
            op["arg"] = streams.s("do_arg").randrange(6)
            if all(x in g["nodes"] for x in op["xs"]):
                ng = g if op["inplace"] else _copy.deepcopy(g)
                for x in op["xs"]:
                    ng["edges"] = {(a, b) for (a, b) in ng["edges"] if b != x}
                    if x in ng["cpd"]:
                        ng["cpd"][x] = set()
                if not op["inplace"]:
                    _sim_push(sim, m, ng)
        elif kind == "copy":
            _sim_push(sim, m, _copy.deepcopy(g))
        elif kind == "get_random_cpds":
            op["n_states"] = r.choice(["universe", "universe", "int2", "none"])
            op["inplace"] = r.random() < 0.5
            op["seed"] = r.randrange(2**31)
            if bad:
                # a dict that passes the key check but carries one unusable cardinality: must be refused as a whole
                op["n_states"] = "universe"
                op["bad_value"] = {"pos": rf.randrange(6), "val": rf.choice([-1, 2.5, "x"])}
            if not op.get("bad_value"):
                ng = g if op["inplace"] else _copy.deepcopy(g)
                for v in ng["nodes"]:
                    ng["cpd"][v] = {a for (a, b) in ng["edges"] if b == v}
                if not op["inplace"]:
                    _sim_push(sim, m, ng)
        elif kind == "probe":
            op["v"] = r.choice(nodes) if nodes else 0
        elif kind == "dag_ctor":
            es = []
            for _ in range(r.randint(1, 5)):
                a, b = r.sample(range(n), 2)
                es.append([a, b])
            if bad and es:
                a, b = es[0]
                es.append([b, a])
            op["es"] = es
            op["latents"] = r.sample(range(n), r.randint(0, 2))
        ops.append(op)
    return {"kind": "bn", "universe": u, "ops": ops}


def _sim_remove(g, x):
    if x in g["nodes"]:
        g["nodes"].discard(x)
        g["edges"] = {(a, b) for (a, b) in g["edges"] if a != x and b != x}
        g["cpd"].pop(x, None)
        for v in g["cpd"]:
            g["cpd"][v].discard(x)


def _sim_push(sim, m, ng):
    if len(sim.live) < MAXLIVE:
        sim.live.append(ng)
    else:
        sim.live[(m + 1) % MAXLIVE] = ng


def generate_dbn(streams, tier):
    u = gen_universe(streams, k=4)
    u["card"] = [max(2, c) for c in u["card"]]
    for v in range(u["n"]):
        if u["states"][v] is not None and len(u["states"][v]) != u["card"][v]:
            u["states"][v] = None
    n = u["n"]
    r = streams.s("workload")
    rf = streams.s("faults")
    ops = []
    fault_rate = r.choice([0.0, 0.15, 0.3])
    for _ in range(r.randint(5, 25 if tier == "quick" else 50)):
        kind = weighted(r, [("add_node", 2), ("add_edge", 7), ("add_edges_from", 1), ("add_cpds", 3), ("remove_cpds", 1),
                            ("copy", 2), ("init_state", 1), ("check_model", 1)])
        op = {"op": kind, "m": r.randrange(MAXLIVE)}
        bad = rf.random() < fault_rate
        if kind == "add_node":
            op["x"] = r.randrange(n)
        elif kind == "add_edge":
            a, b = r.randrange(n), r.randrange(n)
            t = r.choice([[0, 0], [0, 0], [0, 1], [1, 1], [0, 1]])
            if bad:
                t = rf.choice([[1, 0], [0, 2], [0, 0], [2, 3], [1, 2], [3, 3], [1, 1]])
                if rf.random() < 0.3:
                    b = a
            op.update(u=a, v=b, tu=t[0], tv=t[1], malformed=bad and rf.random() < 0.15)
        elif kind == "add_edges_from":
            es = []
            for _ in range(r.randint(1, 3)):
                a, b = r.randrange(n), r.randrange(n)
                t = r.choice([[0, 0], [0, 1], [1, 1]])
                es.append([a, t[0], b, t[1]])
            op["es"] = es
        elif kind == "add_cpds":
            v = r.randrange(n)
            t = r.choice([0, 0, 1])
            op.update(v=v, t=t, seed=r.randrange(2**31), unknown=bad and rf.random() < 0.5)
        elif kind == "remove_cpds":
            op.update(v=r.randrange(n), t=r.choice([0, 1]))
        ops.append(op)
    return {"kind": "dbn", "universe": u, "ops": ops}


def generate_jt(streams, tier):
    u = gen_universe(streams, k=5)
    n = u["n"]
    r = streams.s("workload")
    rf = streams.s("faults")
    # a pool of cliques (tuples of logical variables)
    pool = []
    for _ in range(r.randint(3, 6)):
        c = r.sample(range(n), r.randint(1, 3))
        if sorted(c) not in [sorted(x) for x in pool]:
            pool.append(c)
    ops = []
    fault_rate = r.choice([0.0, 0.2, 0.4])
    for _ in range(r.randint(5, 25 if tier == "quick" else 50)):
        kind = weighted(r, [("add_node", 2), ("add_edge", 7), ("add_factor", 3), ("copy", 2), ("check_model", 1), ("remove_factor", 1)])
        op = {"op": kind, "m": r.randrange(MAXLIVE)}
        if kind == "add_node":
            op["c"] = r.randrange(len(pool))
            op["as_list"] = r.random() < 0.2
        elif kind == "add_edge":
            a, b = r.randrange(len(pool)), r.randrange(len(pool))
            op.update(a=a, b=b)
        elif kind == "add_factor":
            op.update(c=r.randrange(len(pool)), seed=r.randrange(2**31), perm=r.random() < 0.5, foreign=rf.random() < fault_rate)
        elif kind == "remove_factor":
            op.update(i=r.randrange(4))
        ops.append(op)
    # cliques are "list or set or tuple" by the documentation: some histories name them by frozensets
    return {"kind": "jt", "universe": u, "pool": pool, "ops": ops, "clique_repr": "frozenset" if r.random() < 0.2 else "tuple"}


def generate_mn(streams, tier):
    u = gen_universe(streams, k=5)
    n = u["n"]
    r = streams.s("workload")
    rf = streams.s("faults")
    ops = []
    fault_rate = r.choice([0.0, 0.2, 0.4])
    for _ in range(r.randint(5, 25 if tier == "quick" else 50)):
        kind = weighted(r, [("add_node", 2), ("add_edge", 6), ("add_factor", 4), ("remove_factor", 1), ("copy", 2), ("check_model", 1)])
        op = {"op": kind, "m": r.randrange(MAXLIVE)}
        if kind == "add_node":
            op["x"] = r.randrange(n)
        elif kind == "add_edge":
            a, b = r.randrange(n), r.randrange(n)
            if rf.random() >= fault_rate and a == b:
                b = (a + 1) % n
            op.update(u=a, v=b)
        elif kind == "add_factor":
            sc = r.sample(range(n), r.randint(1, 3))
            op.update(scope=sc, seed=r.randrange(2**31), n=r.randint(1, 2))
        elif kind == "remove_factor":
            op.update(i=r.randrange(4), absent=rf.random() < fault_rate)
        ops.append(op)
    return {"kind": "mn", "universe": u, "ops": ops}


def generate(streams, tier):
    r = streams.s("kind")
    kind = weighted(r, [("bn", 6), ("dbn", 2), ("jt", 1), ("mn", 1)])
    return {"bn": generate_bn, "dbn": generate_dbn, "jt": generate_jt, "mn": generate_mn}[kind](streams, tier)


def describe(case):
    return {"kind": case["kind"], "labels": case["universe"]["labels"], "card": case["universe"]["card"], "n_ops": len(case["ops"]),
            "ops": case["ops"][:8]}


# ==================================================================================================
# execution: BayesianNetwork machine
# ==================================================================================================
class RefBN:
    def __init__(self):
        self.nodes = set()
        self.edges = set()
        self.latents = set()
        self.cpd = {}  # v -> {"parents": [..], "pcard": {p: card}, "card": int, "states": {var: [...]}, "table": ndarray or None}

    def clone(self):
        return _copy.deepcopy(self)

    def parents(self, v):
        return {a for (a, b) in self.edges if b == v}

    def children(self, v):
        return {b for (a, b) in self.edges if a == v}

    def has_path(self, a, b):
        seen = {a}
        st = [a]
        while st:
            x = st.pop()
            if x == b:
                return True
            for c in self.children(x):
                if c not in seen:
                    seen.add(c)
                    st.append(c)
        return False

    def consistent(self):
        """What check_model promises: every node has a CPD over exactly its graph parents with matching
        cardinalities / state names, columns summing to one."""
        for v in self.nodes:
            rec = self.cpd.get(v)
            if rec is None:
                return False
            if set(rec["parents"]) != self.parents(v) or len(set(rec["parents"])) != len(rec["parents"]):
                return False
        for v in self.nodes:
            rec = self.cpd[v]
            for p in rec["parents"]:
                prec = self.cpd[p]
                if rec["pcard"][p] != prec["card"]:
                    return False
                if [repr(s) for s in rec["states"][p]] != [repr(s) for s in prec["states"][p]]:
                    return False
            t = rec["table"]
            if t is None:
                return False
            if not np.allclose(t.sum(axis=0), 1.0, atol=1e-6):
                return False
        return True

    def state(self):
        return {"nodes": sorted(self.nodes), "edges": sorted(self.edges), "latents": sorted(self.latents),
                "cpd": {v: sorted(self.cpd[v]["parents"]) for v in sorted(self.cpd)}}


def real_state_bn(m, names):
    def ix(x):
        return names.lab2idx.get(x, ("?", repr(x)))

    cp = {}
    dup = False
    for c in m.cpds:
        v = ix(c.variable)
        if v in cp:
            dup = True
        cp[v] = sorted(ix(p) for p in c.variables[1:])
    return {"nodes": sorted(ix(x) for x in m.nodes()), "edges": sorted((ix(a), ix(b)) for a, b in m.edges()),
            "latents": sorted(ix(x) for x in m.latents), "cpd": {v: cp[v] for v in sorted(cp)}, **({"dup_cpd": True} if dup else {})}


def deep_snapshot(m):
    """Address-free content of a model (any kind)."""
    out = {"nodes": sorted(repr(x) for x in m.nodes()), "edges": sorted(repr(tuple(sorted((repr(a), repr(b))))) if not m.is_directed() else repr((a, b)) for a, b in m.edges())}
    if hasattr(m, "latents"):
        out["latents"] = sorted(repr(x) for x in m.latents)
    fs = getattr(m, "cpds", None)
    if fs is None:
        fs = getattr(m, "factors", [])
    items = []
    for f in fs:
        vals = to_np(f.values)
        items.append(repr(([repr(x) for x in f.variables], [int(c) for c in f.cardinality], [round(float(x), 10) for x in vals.ravel()],
                           sorted((repr(k), [repr(s) for s in v]) for k, v in f.state_names.items()))))
    out["factors"] = sorted(items)
    return out


def sync_cpd_from_real(c, names):
    vs = [names.lab2idx[x] for x in c.variables]
    vals = to_np(c.values)
    return {"parents": vs[1:], "card": int(c.cardinality[0]), "pcard": {p: int(k) for p, k in zip(vs[1:], c.cardinality[1:])},
            "states": {names.lab2idx[k]: list(v) for k, v in c.state_names.items() if k in names.lab2idx},
            "table": vals.reshape(vals.shape[0], -1) if vals.ndim else vals.reshape(1, 1)}


def make_cpd_real(universe, names, v, parents, table):
    from pgmpy.factors.discrete import TabularCPD

    card = universe["card"]
    kw = {}
    scope = [v] + list(parents)
    if any(universe["states"][x] is not None for x in scope):
        kw["state_names"] = {names.L(x): list(names.states[x]) for x in scope}
    if parents:
        return TabularCPD(names.L(v), card[v], table, evidence=[names.L(p) for p in parents], evidence_card=[card[p] for p in parents], **kw)
    return TabularCPD(names.L(v), card[v], table, **kw)


def ref_cpd_record(universe, names, v, parents, table):
    card = universe["card"]
    return {"parents": list(parents), "card": card[v], "pcard": {p: card[p] for p in parents},
            "states": {x: list(names.states[x]) for x in [v] + list(parents)}, "table": np.asarray(table, dtype=float)}


def valid_conditional(c, graph_parents_labels):
    """CPD c is a conditional distribution over exactly the given parents."""
    if set(c.variables[1:]) != set(graph_parents_labels) or len(c.variables[1:]) != len(set(c.variables[1:])):
        return f"scope {list(c.variables)!r} but graph parents {sorted(map(repr, graph_parents_labels))}"
    vals = to_np(c.values)
    if vals.shape != tuple(int(k) for k in c.cardinality):
        return f"values shape {vals.shape} != cardinality {list(c.cardinality)}"
    s = vals.sum(axis=0) if vals.ndim >= 1 else vals
    if not np.allclose(s, 1.0, atol=1e-6) or np.any(vals < -1e-12) or np.any(np.isnan(vals)):
        return f"columns do not sum to one: {np.asarray(s).ravel()[:6]}"
    for x in c.variables:
        if x not in c.state_names or len(c.state_names[x]) != c.get_cardinality([x])[x]:
            return f"state names of {x!r} inconsistent"
    return None


def execute(case, ctx):
    kind = case["kind"]
    ctx.event("kind", kind)
    {"bn": execute_bn, "dbn": execute_dbn, "jt": execute_jt, "mn": execute_mn}[kind](case, ctx)


def _outcome_check(ctx, opname, raised, exc, must, before_target, after_target, expected, others_before, others_after, bulk=False):
    """Common invariants.  must in {'accept','reject','either'} is informational only: the property is a safety
    property (it does not say which operations have to be accepted), so a refusal of a valid op or the acceptance
    of an invalid one is counted as a probe, never reported."""
    ok = True
    for i, (b, a) in enumerate(zip(others_before, others_after)):
        if b is not None and b != a:
            ctx.fail("copy_independence", f"{PROP}:alias:{opname}", {"other_model": i, "diff": _diff(b, a)})
            ok = False
    if raised:
        if before_target != after_target and not bulk:
            ctx.fail("rejected_unchanged", f"{PROP}:not_atomic:{opname}:{exc_site(exc)}", {"exc": exc_brief(exc), "diff": _diff(before_target, after_target)})
            ok = False
        elif must == "accept":
            ctx.probe("refused_op_the_reference_accepts:" + opname)
        else:
            ctx.fault("reject_op")
    else:
        if must == "reject":
            ctx.probe("accepted_op_the_reference_refuses:" + opname)
    return ok


def _diff(a, b):
    out = {}
    for k in sorted(set(a) | set(b)):
        if a.get(k) != b.get(k):
            out[k] = {"before": a.get(k), "after": b.get(k)}
    return out


def execute_bn(case, ctx):
    from pgmpy.base import DAG
    from pgmpy.models import BayesianNetwork
    import networkx as nx

    u = case["universe"]
    names = Names({"n": u["n"], "labels": u["labels"], "states": u["states"], "card": u["card"]})
    ctx.sig_order("labels", [names.lab2idx[x] for x in set(names.labels)])
    ctx.fault("relabel")
    live = [BayesianNetwork()]
    refs = [RefBN()]
    cyclic_seen = set()

    def L(x):
        return names.L(x)

    for i, op in enumerate(case["ops"]):
        ctx.step_no = i
        k = op["op"]
        m = op.get("m", 0)
        if m >= len(live):
            m = m % len(live)
        model, ref = live[m], refs[m]
        ctx.steps += 1
        snaps = [deep_snapshot(x) for x in live]
        before = real_state_bn(model, names)
        was_consistent = ref.consistent()
        exp = ref.clone()
        must = "accept"
        alt = None  # alternative acceptable end state for bulk ops
        new_model = None
        raised = None
        call = None
        post_valid = False
        post_children = []
        ctx.event(k, m, {kk: vv for kk, vv in op.items() if kk not in ("op", "m", "table", "items")})

        if k == "add_node":
            exp.nodes.add(op["x"])
            if op["latent"]:
                exp.latents.add(op["x"])
            call = lambda: model.add_node(L(op["x"]), latent=op["latent"])
        elif k == "add_nodes_from":
            for x in op["xs"]:
                exp.nodes.add(x)
                if op["latent"]:
                    exp.latents.add(x)
            call = lambda: model.add_nodes_from([L(x) for x in op["xs"]], latent=op["latent"])
        elif k == "add_edge":
            a, b = op["u"], op["v"]
            if a == b or (a in ref.nodes and b in ref.nodes and ref.has_path(b, a)):
                must = "reject"
            else:
                exp.nodes.update([a, b])
                exp.edges.add((a, b))
            call = lambda: model.add_edge(L(a), L(b))
        elif k == "add_edges_from":
            must = "either"
            for a, b in op["es"]:
                if a == b or (a in exp.nodes and b in exp.nodes and exp.has_path(b, a)):
                    must = "reject_partial"
                    break
                exp.nodes.update([a, b])
                exp.edges.add((a, b))
            else:
                must = "accept"
            if op.get("weights"):
                call = lambda: model.add_edges_from([(L(a), L(b)) for a, b in op["es"]], weights=[0.5 + j for j in range(len(op["es"]))])
                ctx.probe("add_edges_from_with_weights")
            else:
                call = lambda: model.add_edges_from([(L(a), L(b)) for a, b in op["es"]])
        elif k == "remove_node":
            x = op["x"]
            if x not in ref.nodes:
                must = "reject"
            else:
                # children whose CPD agrees with the graph before the removal must have a valid CPD over the remaining parents
                # afterwards, whether or not the rest of the model is parameterised
                post_children = [c for c in ref.children(x) if c in ref.cpd and set(ref.cpd[c]["parents"]) == set(ref.parents(c)) and c != x]
                stale = [c for c in ref.children(x) if c in ref.cpd and x not in ref.cpd[c]["parents"]]
                if stale:
                    must = "either"
                _ref_remove(exp, x)
                post_valid = was_consistent
            call = lambda: model.remove_node(L(x))
        elif k == "remove_nodes_from":
            must = "accept"
            for x in op["xs"]:
                if x not in exp.nodes or any(c in exp.cpd and x not in exp.cpd[c]["parents"] for c in exp.children(x)):
                    must = "reject_partial"
                    break
                _ref_remove(exp, x)
            post_valid = was_consistent and must == "accept"
            call = lambda: model.remove_nodes_from([L(x) for x in op["xs"]])
        elif k == "add_cpds":
            if op["table"] is None:
                must = "reject"
                call = lambda: model.add_cpds("not a cpd")
            else:
                v, ps = op["v"], list(op["parents"])
                if v in ps or len(set(ps)) != len(ps) or np.asarray(op["table"]).shape != (u["card"][v], int(np.prod([u["card"][p] for p in ps])) if ps else 1):
                    continue
                try:
                    cpd = make_cpd_real(u, names, v, ps, op["table"])
                except Exception:
                    continue
                if v not in ref.nodes or any(p not in ref.nodes for p in ps):
                    must = "reject"
                else:
                    exp.cpd[v] = ref_cpd_record(u, names, v, ps, op["table"])
                call = lambda: model.add_cpds(cpd)
        elif k == "fill_cpds":
            cpds = []
            okk = True
            for it in op["items"]:
                v, ps = it["v"], list(it["parents"])
                if v in ps or len(set(ps)) != len(ps) or np.asarray(it["table"]).shape != (u["card"][v], int(np.prod([u["card"][p] for p in ps])) if ps else 1):
                    okk = False
                    break
                cpds.append(make_cpd_real(u, names, v, ps, it["table"]))
            if not okk or not cpds:
                continue
            must = "accept"
            for it in op["items"]:
                v, ps = it["v"], list(it["parents"])
                if v not in exp.nodes or any(p not in exp.nodes for p in ps):
                    must = "reject_partial"
                    break
                exp.cpd[v] = ref_cpd_record(u, names, v, ps, it["table"])
            call = lambda: model.add_cpds(*cpds)
        elif k == "remove_cpds":
            v = op["v"]
            if v not in ref.nodes or v not in ref.cpd:
                must = "reject"
                if op["by_object"]:
                    # an equal-looking CPD object that is not in the model
                    try:
                        stray = make_cpd_real(u, names, v, [], W.gen_table(__import__("random").Random(v), u["card"][v], []))
                    except Exception:
                        continue
                    call = lambda: model.remove_cpds(stray)
                    if v in ref.cpd:
                        continue
                else:
                    call = lambda: model.remove_cpds(L(v))
            else:
                del exp.cpd[v]
                if op["by_object"]:
                    obj = model.get_cpds(L(v))
                    call = lambda: model.remove_cpds(obj)
                else:
                    call = lambda: model.remove_cpds(L(v))
        elif k == "do":
            xs = list(op["xs"])
            inplace = op["inplace"]
            if any(x not in ref.nodes for x in xs):
                must = "reject"
            else:
                tgt = exp if inplace else ref.clone()
                for x in xs:
                    tgt.edges = {(a, b) for (a, b) in tgt.edges if b != x}
                    if x in tgt.cpd:
                        rec = tgt.cpd[x]
                        rec["parents"] = []
                        rec["pcard"] = {}
                        rec["table"] = None  # synced from the real object after the validity check
                if ref.cpd and any(x not in ref.cpd for x in xs):
                    must = "either"  # partially parameterised model: pgmpy may refuse
                post_valid = was_consistent
                new_ref = None if inplace else tgt

            def call():
                nonlocal new_model
                # the nodes arrive in whatever container the caller has at hand (list, tuple, set, dict keys, a one-shot iterator)
                lst = [L(x) for x in xs]
                how = op.get("arg", 0) % 6
                arg = [lst, tuple(lst), set(lst), dict.fromkeys(lst).keys(), iter(lst), (y for y in lst)][how]
                if how >= 4:
                    ctx.probe("do_nodes_given_as_iterator")
                res = model.do(arg, inplace=inplace)
                if not inplace:
                    new_model = res
        elif k == "copy":
            new_ref = ref.clone()

            def call():
                nonlocal new_model
                new_model = model.copy()
        elif k == "get_random_cpds":
            import numpy as _np

            ns = op["n_states"]
            arg = None
            if ns == "universe":
                arg = {L(x): u["card"][x] for x in ref.nodes}
                if op.get("bad_value") and len(model.nodes()) > 0:
                    order = list(model.nodes())
                    arg[order[op["bad_value"]["pos"] % len(order)]] = op["bad_value"]["val"]
                    must = "either"
            elif ns == "int2":
                arg = 2
            inplace = op["inplace"]
            tgt = exp if inplace else ref.clone()
            for x in tgt.nodes:
                tgt.cpd[x] = {"parents": sorted(tgt.parents(x)), "card": 0, "pcard": {}, "states": {}, "table": None}
            new_ref = None if inplace else tgt

            def call():
                nonlocal new_model
                _np.random.seed(op["seed"])
                ctx.fault("rng_perturb")
                res = model.get_random_cpds(n_states=arg, inplace=inplace)
                if not inplace:
                    new_model = res
            post_valid = True
        elif k == "check_model":
            if was_consistent:
                def call():
                    if model.check_model() is not True:
                        raise AssertionError("check_model returned a non-True value")
            else:
                must = "either"
                call = lambda: model.check_model()
        elif k == "probe":
            v = op["v"]
            if not was_consistent or v not in ref.nodes:
                continue
            ok_probe = _probe_bn(ctx, model, ref, names, v)
            ctx.checked += 1
            continue
        elif k == "dag_ctor":
            es = [(a, b) for a, b in op["es"]]
            cyc = not is_acyclic(u["n"], es) or any(a == b for a, b in es)
            try:
                d = DAG([(L(a), L(b)) for a, b in es], latents=[L(x) for x in op["latents"]])
                if cyc:
                    ctx.fail("acyclic", f"{PROP}:dag_ctor_accepts_cycle", {"edges": es})
                elif not nx.is_directed_acyclic_graph(d):
                    ctx.fail("acyclic", f"{PROP}:dag_ctor_cyclic_result", {"edges": es})
                else:
                    d2 = DAG()
                    if d2.latents:
                        ctx.fail("copy_independence", f"{PROP}:alias:dag_default_latents", {"latents": sorted(map(repr, d2.latents))})
            except ValueError as e:
                if not cyc:
                    ctx.fail("accepts_valid", f"{PROP}:refused_valid:dag_ctor:{exc_site(e)}", exc_brief(e))
                else:
                    ctx.fault("reject_op")
            ctx.checked += 1
            continue
        else:
            continue

        try:
            call()
        except Exception as e:
            raised = e
        after = real_state_bn(model, names)
        snaps_after = [deep_snapshot(x) for x in live]
        others_b = [s if j != m else None for j, s in enumerate(snaps)]
        others_a = [s if j != m else None for j, s in enumerate(snaps_after)]
        must_simple = must if must in ("accept", "reject", "either") else "either"
        bulk = k in ("add_edges_from", "remove_nodes_from", "fill_cpds", "add_nodes_from")
        ok = _outcome_check(ctx, k, raised is not None, raised, must_simple, snaps[m], snaps_after[m], exp.state(), others_b, others_a, bulk=bulk)
        ctx.checked += 1
        inplace_like = k not in ("copy",) and not (k in ("do", "get_random_cpds") and not op.get("inplace"))
        if raised is None:
            if must == "reject_partial":
                ctx.probe("accepted_op_the_reference_refuses:" + k)
            if inplace_like:
                want = exp.state()
                if after != want:
                    ctx.probe("state_differs_from_reference:" + k)
                refs[m] = exp
            else:
                # out-of-place: target unchanged, new model in the expected state
                if snaps[m] != snaps_after[m]:
                    ctx.fail("out_of_place_pure", f"{PROP}:mutated_by:{k}", _diff(snaps[m], snaps_after[m]))
                    ok = False
                if new_model is not None:
                    got = real_state_bn(new_model, names)
                    want = new_ref.state()
                    if k == "copy":
                        snap_new = deep_snapshot(new_model)
                        if snap_new != snaps[m]:
                            ctx.fail("copy_equal", f"{PROP}:copy_differs", _diff(snaps[m], snap_new))
                            ok = False
                    elif got != want:
                        ctx.probe("state_differs_from_reference:" + k)
                    if id(model) in cyclic_seen:
                        cyclic_seen.add(id(new_model))
                    if len(live) < MAXLIVE:
                        live.append(new_model)
                        refs.append(new_ref)
                        mm = len(live) - 1
                    else:
                        mm = (m + 1) % MAXLIVE
                        live[mm] = new_model
                        refs[mm] = new_ref
        else:
            if must == "reject_partial":
                # bulk op refused part-way: atomic refusal or an applied prefix are both fine
                if after != before and after != exp.state():
                    ctx.probe("state_differs_from_reference:" + k)
            elif after != before:
                # already reported by _outcome_check; resynchronise the reference with reality
                pass
        # post-conditions on CPDs, then sync tables the reference does not predict
        for j, (mod, rf_) in enumerate(zip(live, refs)):
            tgt_mod = new_model if (new_model is not None and not inplace_like) else model
            _resync(ctx, mod, rf_, names, check_valid=(post_valid and raised is None and mod is tgt_mod), opname=k)
        if post_children and raised is None and not post_valid:
            ctx.probe("remove_node_in_partially_parameterised_model")
            for c in post_children:
                if L(c) not in model.nodes():
                    continue
                cp = model.get_cpds(L(c))
                why = "CPD of the child disappeared" if cp is None else valid_conditional(cp, list(model.predecessors(L(c))))
                if why:
                    ctx.fail("cpd_valid_after_edit", f"{PROP}:invalid_cpd_after:{k}:partially_parameterised", {"child": c, "removed": op.get("x"), "why": why})
                    break
        # acyclicity of every live model
        for j, mod in enumerate(live):
            if id(mod) not in cyclic_seen and not nx.is_directed_acyclic_graph(mod):
                cyclic_seen.add(id(mod))
                ctx.fail("acyclic", f"{PROP}:cycle:{k}", {"model": j, "edges": sorted(repr(e) for e in mod.edges())})
        if ctx.failures and len(ctx.failures) > 12:
            return


def _ref_remove(exp, x):
    exp.nodes.discard(x)
    exp.latents.discard(x)
    for c in list(exp.children(x)):
        if c in exp.cpd and x in exp.cpd[c]["parents"]:
            rec = exp.cpd[c]
            rec["parents"] = [p for p in rec["parents"] if p != x]
            rec["pcard"].pop(x, None)
            rec["table"] = None
    exp.edges = {(a, b) for (a, b) in exp.edges if a != x and b != x}
    exp.cpd.pop(x, None)


def _resync(ctx, mod, ref, names, check_valid, opname):
    """Bring the reference's structure and tables in line with the real object (values of marginalised / random
    CPDs are not predicted).  With check_valid: every CPD must be a valid conditional over its graph parents."""
    real = real_state_bn(mod, names)
    # after a reported failure the real state may differ from the reference; follow reality from here on
    ok_nodes = [x for x in real["nodes"] if isinstance(x, int)]
    ref.nodes = set(ok_nodes)
    ref.edges = {(a, b) for a, b in real["edges"] if isinstance(a, int) and isinstance(b, int)}
    ref.latents = {x for x in real["latents"] if isinstance(x, int)}
    ref.cpd = {}
    for c in mod.cpds:
        if c.variable not in names.lab2idx:
            continue
        v = names.lab2idx[c.variable]
        if check_valid and c.variable not in mod.nodes():
            # a table left behind for a variable that is no longer in the graph is not a conditional "over its graph parents"
            ctx.fail("cpd_valid_after_edit", f"{PROP}:cpd_of_absent_node_after:{opname}", {"var": v})
            continue
        if check_valid:
            ps = [p for p in mod.predecessors(c.variable)]
            why = valid_conditional(c, ps)
            if why:
                ctx.fail("cpd_valid_after_edit", f"{PROP}:invalid_cpd_after:{opname}", {"var": v, "why": why})
        try:
            ref.cpd[v] = sync_cpd_from_real(c, names)
        except Exception as e:
            ctx.fail("cpd_valid_after_edit", f"{PROP}:unreadable_cpd_after:{opname}", exc_brief(e))
    if check_valid:
        for x in mod.nodes():
            if mod.get_cpds(x) is None:
                ctx.fail("cpd_valid_after_edit", f"{PROP}:missing_cpd_after:{opname}", {"var": repr(x)})


def _probe_bn(ctx, model, ref, names, v):
    """A query answer on a consistent model equals the reference joint built from the reference's tables."""
    from pgmpy.inference import VariableElimination

    nodes = sorted(ref.nodes)
    card = [ref.cpd[x]["card"] for x in nodes]
    if int(np.prod(card)) > 20000:
        return True
    pos = {x: i for i, x in enumerate(nodes)}
    factors = []
    for x in nodes:
        rec = ref.cpd[x]
        factors.append({"scope": [pos[x]] + [pos[p] for p in rec["parents"]], "values": np.asarray(rec["table"]).reshape(-1).tolist()})
    rj = RefJoint.from_factors(card, factors)
    want = rj.posterior([pos[v]])
    try:
        res = VariableElimination(model).query([names.L(v)], show_progress=False)
    except Exception as e:
        ctx.fail("probe", f"{PROP}:probe_raise:{type(e).__name__}:{exc_site(e)}", exc_brief(e))
        return False
    got = to_np(res.values)
    # state order of a single-variable answer = order of the CPD's state names
    if got.shape != want.shape or not close(got, want):
        ctx.fail("probe", f"{PROP}:probe_value", {"v": v, "got": got.tolist(), "want": want.tolist()})
        return False
    return True


# ==================================================================================================
# DBN machine
# ==================================================================================================
def execute_dbn(case, ctx):
    import networkx as nx
    from pgmpy.factors.discrete import TabularCPD
    from pgmpy.models import DynamicBayesianNetwork as DBN

    u = case["universe"]
    names = Names({"n": u["n"], "labels": u["labels"], "states": [None] * u["n"], "card": u["card"]})
    ctx.fault("relabel")
    live = [DBN()]
    refs = [{"nodes": set(), "intra": set(), "inter": set()}]
    cyclic_seen = set()

    def L(x):
        return names.L(x)

    def has_path(ref, a, b):
        seen = {a}
        st = [a]
        while st:
            x = st.pop()
            if x == b:
                return True
            for (p, q) in ref["intra"]:
                if p == x and q not in seen:
                    seen.add(q)
                    st.append(q)
        return False

    def real_state(mod):
        ns = set()
        intra0, intra1, inter, other = set(), set(), set(), set()
        for nd in mod.nodes():
            ns.add((names.lab2idx.get(nd[0], repr(nd[0])), nd[1]))
        for a, b in mod.edges():
            ia, ib = names.lab2idx.get(a[0], repr(a[0])), names.lab2idx.get(b[0], repr(b[0]))
            if a[1] == 0 and b[1] == 0:
                intra0.add((ia, ib))
            elif a[1] == 1 and b[1] == 1:
                intra1.add((ia, ib))
            elif a[1] == 0 and b[1] == 1:
                inter.add((ia, ib))
            else:
                other.add((ia, a[1], ib, b[1]))
        return {"nodes": sorted(ns, key=repr), "intra0": sorted(intra0), "intra1": sorted(intra1), "inter": sorted(inter), "other": sorted(other)}

    def want_state(ref):
        ns = sorted(ref["nodes"], key=repr)
        return {"nodes": ns, "intra0": sorted(ref["intra"]), "intra1": sorted(ref["intra"]), "inter": sorted(ref["inter"]), "other": []}

    for i, op in enumerate(case["ops"]):
        ctx.step_no = i
        k = op["op"]
        m = op.get("m", 0) % len(live)
        model, ref = live[m], refs[m]
        ctx.steps += 1
        snaps = [deep_snapshot_dbn(x) for x in live]
        exp = _copy.deepcopy(ref)
        must = "accept"
        new_model = None
        raised = None
        ctx.event(k, m, {kk: vv for kk, vv in op.items() if kk not in ("op", "m")})
        if k == "add_node":
            exp["nodes"].add((op["x"], 0))
            call = lambda: model.add_node(L(op["x"]))
        elif k == "add_edge":
            a, b, ta, tb = op["u"], op["v"], op["tu"], op["tv"]
            if op.get("malformed"):
                must = "reject"
                call = lambda: model.add_edge(L(a), (L(b), tb))
                if not isinstance(L(a), (str, int)):
                    continue  # a tuple label would itself look like (node, slice)
                if isinstance(L(a), str) and len(L(a)) == 2:
                    continue
            else:
                if ta == tb:
                    if a == b or has_path(ref, b, a):
                        must = "reject"
                    else:
                        exp["nodes"].update([(a, 0), (b, 0), (a, 1), (b, 1)])
                        exp["intra"].add((a, b))
                elif tb == ta + 1:
                    exp["nodes"].update([(a, 0), (b, 1), (b, 0)])
                    exp["inter"].add((a, b))
                else:
                    must = "reject"
                call = lambda: model.add_edge((L(a), ta), (L(b), tb))
        elif k == "add_edges_from":
            must = "accept"
            for a, ta, b, tb in op["es"]:
                if ta == tb:
                    if a == b or has_path(exp, b, a):
                        must = "reject_partial"
                        break
                    exp["nodes"].update([(a, 0), (b, 0), (a, 1), (b, 1)])
                    exp["intra"].add((a, b))
                elif tb == ta + 1:
                    exp["nodes"].update([(a, 0), (b, 1), (b, 0)])
                    exp["inter"].add((a, b))
                else:
                    must = "reject_partial"
                    break
            call = lambda: model.add_edges_from([((L(a), ta), (L(b), tb)) for a, ta, b, tb in op["es"]])
        elif k == "add_cpds":
            v, t = op["v"], op["t"]
            if any(c.variable == (L(v), t) for c in model.cpds):
                continue  # DBN.add_cpds appends; a second CPD for one variable is outside the property
            if op.get("unknown"):
                must = "reject"
                cpd = TabularCPD(("__nope__", 0), 2, [[0.5], [0.5]])
            else:
                if (v, t) not in ref["nodes"]:
                    must = "reject"
                    cpd = TabularCPD((L(v), t), u["card"][v], [[1.0 / u["card"][v]]] * u["card"][v])
                else:
                    ps = [(p, t) for (p, q) in sorted(ref["intra"]) if q == v]
                    if t == 1:
                        ps += [(p, 0) for (p, q) in sorted(ref["inter"]) if q == v]
                    import random as _random

                    rr = _random.Random(op["seed"])
                    table = W.gen_table(rr, u["card"][v], [u["card"][p] for p, _ in ps])
                    cpd = TabularCPD((L(v), t), u["card"][v], table, evidence=[(L(p), tt) for p, tt in ps] or None,
                                     evidence_card=[u["card"][p] for p, _ in ps] or None)
            call = lambda: model.add_cpds(cpd)
        elif k == "remove_cpds":
            v, t = op["v"], op["t"]
            have = [c for c in model.cpds if c.variable == (L(v), t)]
            if not have:
                must = "reject"
            call = lambda: model.remove_cpds((L(v), t))
        elif k == "copy":
            def call():
                nonlocal new_model
                new_model = model.copy()
        elif k == "init_state":
            must = "either"
            call = lambda: model.initialize_initial_state()
        elif k == "check_model":
            must = "either"
            call = lambda: model.check_model()
        else:
            continue
        try:
            call()
        except Exception as e:
            raised = e
        snaps_after = [deep_snapshot_dbn(x) for x in live]
        others_b = [s if j != m else None for j, s in enumerate(snaps)]
        others_a = [s if j != m else None for j, s in enumerate(snaps_after)]
        ms = must if must in ("accept", "reject", "either") else "either"
        _outcome_check(ctx, "dbn_" + k, raised is not None, raised, ms, snaps[m], snaps_after[m], want_state(exp), others_b, others_a,
                       bulk=k in ("add_edges_from", "init_state"))
        ctx.checked += 1
        after = real_state(model)
        if raised is None:
            if must == "reject_partial":
                ctx.probe("accepted_op_the_reference_refuses:dbn_" + k)
            if k == "copy":
                if new_model is not None:
                    if deep_snapshot_dbn(new_model) != snaps[m]:
                        ctx.fail("copy_equal", f"{PROP}:copy_differs:dbn", _diff(snaps[m], deep_snapshot_dbn(new_model)))
                    if id(model) in cyclic_seen:
                        cyclic_seen.add(id(new_model))
                    if len(live) < MAXLIVE:
                        live.append(new_model)
                        refs.append(_copy.deepcopy(ref))
                    else:
                        mm = (m + 1) % MAXLIVE
                        live[mm] = new_model
                        refs[mm] = _copy.deepcopy(ref)
            elif k in ("add_node", "add_edge", "add_edges_from"):
                if after != want_state(exp):
                    ctx.probe("state_differs_from_reference:dbn_" + k)
                refs[m] = exp
        else:
            if must == "reject_partial" and after == want_state(exp):
                refs[m] = exp
        # follow reality for the graph part
        for j, mod in enumerate(live):
            st = real_state(mod)
            refs[j] = {"nodes": {(x, t) for x, t in st["nodes"] if isinstance(x, int)}, "intra": set(map(tuple, st["intra0"])), "inter": set(map(tuple, st["inter"]))}
            if id(mod) not in cyclic_seen and not nx.is_directed_acyclic_graph(mod):
                cyclic_seen.add(id(mod))
                ctx.fail("acyclic", f"{PROP}:cycle:dbn_{k}", {"model": j, "edges": sorted(repr(e) for e in mod.edges())})
            if st["other"] or st["intra0"] != st["intra1"]:
                ctx.probe("state_differs_from_reference:dbn_slices")
        if len(ctx.failures) > 12:
            return


def deep_snapshot_dbn(m):
    import networkx as nx

    out = {"nodes": sorted(repr(tuple(x)) for x in m.nodes()), "edges": sorted(repr((tuple(a), tuple(b))) for a, b in m.edges())}
    items = []
    for f in m.cpds:
        vals = to_np(f.values)
        items.append(repr(([repr(tuple(x)) for x in f.variables], [int(c) for c in f.cardinality], [round(float(x), 10) for x in vals.ravel()])))
    out["factors"] = sorted(items)
    return out


# ==================================================================================================
# JunctionTree machine
# ==================================================================================================
def execute_jt(case, ctx):
    import networkx as nx
    import random as _random
    from pgmpy.factors.discrete import DiscreteFactor
    from pgmpy.models import JunctionTree

    u = case["universe"]
    names = Names({"n": u["n"], "labels": u["labels"], "states": [None] * u["n"], "card": u["card"]})
    pool = [tuple(names.L(x) for x in c) for c in case["pool"]]
    if case.get("clique_repr") == "frozenset":
        pool = [frozenset(c) for c in pool]
        ctx.probe("cliques_named_by_frozensets")
    ctx.fault("relabel")
    live = [JunctionTree()]
    cyclic_seen = set()

    def gstate(mod):
        return {"nodes": sorted(repr(x) for x in mod.nodes()), "edges": sorted(repr(tuple(sorted((repr(a), repr(b))))) for a, b in mod.edges())}

    for i, op in enumerate(case["ops"]):
        ctx.step_no = i
        k = op["op"]
        m = op.get("m", 0) % len(live)
        model = live[m]
        ctx.steps += 1
        snaps = [deep_snapshot(x) for x in live]
        must = "accept"
        raised = None
        new_model = None
        ctx.event(k, m, {kk: vv for kk, vv in op.items() if kk not in ("op", "m")})
        if k == "add_node":
            c = pool[op["c"] % len(pool)]
            arg = list(c) if op.get("as_list") else c
            call = lambda: model.add_node(arg)
        elif k == "add_edge":
            a, b = pool[op["a"] % len(pool)], pool[op["b"] % len(pool)]
            if set(a).isdisjoint(set(b)):
                must = "reject"
            elif a in model.nodes() and b in model.nodes() and nx.has_path(nx.Graph(model), a, b):
                must = "reject"  # would close a cycle (or a == b)
            elif a == b:
                must = "reject"
            call = lambda: model.add_edge(a, b)
        elif k == "add_factor":
            c = pool[op["c"] % len(pool)]
            rr = _random.Random(op["seed"])
            sc = list(c)
            if op.get("perm"):
                rr.shuffle(sc)
            if op.get("foreign"):
                sc = sc + ["__foreign__"]
            cards = [u["card"][names.lab2idx[x]] if x in names.lab2idx else 2 for x in sc]
            phi = DiscreteFactor(sc, cards, [rr.randint(1, 9) / 3.0 for _ in range(int(np.prod(cards)))])
            if set(sc) not in [set(nd) for nd in model.nodes()]:
                must = "reject"
            call = lambda: model.add_factors(phi)
        elif k == "remove_factor":
            if not model.factors:
                continue
            f = model.factors[op["i"] % len(model.factors)]
            call = lambda: model.remove_factors(f)
        elif k == "copy":
            try:
                model.check_model()
                must = "accept"
            except Exception:
                must = "either"  # copying an unfinished tree may legitimately be refused (e.g. clique without factor)
            if len(model) == 0 or not nx.is_connected(nx.Graph(model)):
                must = "either"

            def call():
                nonlocal new_model
                new_model = model.copy()
        elif k == "check_model":
            must = "either"
            call = lambda: model.check_model()
        else:
            continue
        try:
            call()
        except Exception as e:
            raised = e
        snaps_after = [deep_snapshot(x) for x in live]
        others_b = [s if j != m else None for j, s in enumerate(snaps)]
        others_a = [s if j != m else None for j, s in enumerate(snaps_after)]
        _outcome_check(ctx, "jt_" + k, raised is not None, raised, must, snaps[m], snaps_after[m], None, others_b, others_a)
        ctx.checked += 1
        if raised is None and k == "copy" and new_model is not None:
            if deep_snapshot(new_model) != snaps[m]:
                ctx.fail("copy_equal", f"{PROP}:copy_differs:jt", _diff(snaps[m], deep_snapshot(new_model)))
            if id(model) in cyclic_seen:
                cyclic_seen.add(id(new_model))
            if len(live) < MAXLIVE:
                live.append(new_model)
            else:
                live[(m + 1) % MAXLIVE] = new_model
        for j, mod in enumerate(live):
            g = nx.Graph(mod)
            if id(mod) not in cyclic_seen and g.number_of_edges() and (has_undirected_cycle(list(g.nodes()), list(g.edges())) or nx.number_of_selfloops(g)):
                cyclic_seen.add(id(mod))
                ctx.fail("acyclic", f"{PROP}:cycle:jt_{k}", {"model": j, "edges": sorted(repr(e) for e in g.edges())})
        if len(ctx.failures) > 12:
            return


# ==================================================================================================
# MarkovNetwork machine
# ==================================================================================================
def execute_mn(case, ctx):
    import random as _random
    from pgmpy.factors.discrete import DiscreteFactor
    from pgmpy.models import MarkovNetwork

    u = case["universe"]
    names = Names({"n": u["n"], "labels": u["labels"], "states": u["states"], "card": u["card"]})
    ctx.fault("relabel")
    live = [MarkovNetwork()]
    for i, op in enumerate(case["ops"]):
        ctx.step_no = i
        k = op["op"]
        m = op.get("m", 0) % len(live)
        model = live[m]
        ctx.steps += 1
        snaps = [deep_snapshot(x) for x in live]
        must = "accept"
        raised = None
        new_model = None
        expect_nodes = None
        ctx.event(k, m, {kk: vv for kk, vv in op.items() if kk not in ("op", "m")})
        if k == "add_node":
            call = lambda: model.add_node(names.L(op["x"]))
        elif k == "add_edge":
            a, b = op["u"], op["v"]
            if a == b:
                must = "reject"
            call = lambda: model.add_edge(names.L(a), names.L(b))
        elif k == "add_factor":
            rr = _random.Random(op["seed"])
            fs = []
            for j in range(op.get("n", 1)):
                sc = list(op["scope"]) if j == 0 else rr.sample(range(u["n"]), rr.randint(1, 2))
                kw = {}
                if any(u["states"][x] is not None for x in sc):
                    kw["state_names"] = {names.L(x): list(names.states[x]) for x in sc}
                cards = [u["card"][x] for x in sc]
                fs.append((sc, DiscreteFactor([names.L(x) for x in sc], cards, [rr.randint(1, 9) / 3.0 for _ in range(int(np.prod(cards)))], **kw)))
            present = {names.lab2idx[x] for x in model.nodes() if x in names.lab2idx}
            if any(not set(sc) <= present for sc, _ in fs):
                must = "reject" if not set(fs[0][0]) <= present else "either"
            call = lambda: model.add_factors(*[f for _, f in fs])
        elif k == "remove_factor":
            if op.get("absent") or not model.factors:
                must = "reject"
                stray = DiscreteFactor(["__stray__"], [2], [0.25, 0.75])
                call = lambda: model.remove_factors(stray)
            else:
                f = model.factors[op["i"] % len(model.factors)]
                call = lambda: model.remove_factors(f)
        elif k == "copy":
            def call():
                nonlocal new_model
                new_model = model.copy()
        elif k == "check_model":
            must = "either"
            call = lambda: model.check_model()
        else:
            continue
        try:
            call()
        except Exception as e:
            raised = e
        snaps_after = [deep_snapshot(x) for x in live]
        others_b = [s if j != m else None for j, s in enumerate(snaps)]
        others_a = [s if j != m else None for j, s in enumerate(snaps_after)]
        _outcome_check(ctx, "mn_" + k, raised is not None, raised, must, snaps[m], snaps_after[m], None, others_b, others_a,
                       bulk=(k == "add_factor" and op.get("n", 1) > 1))
        ctx.checked += 1
        if raised is None and k == "copy" and new_model is not None:
            if deep_snapshot(new_model) != snaps[m]:
                ctx.fail("copy_equal", f"{PROP}:copy_differs:mn", _diff(snaps[m], deep_snapshot(new_model)))
            if len(live) < MAXLIVE:
                live.append(new_model)
            else:
                live[(m + 1) % MAXLIVE] = new_model
        if len(ctx.failures) > 12:
            return
