"""C06 - parameter learning returns the closed-form estimates.

Seams: the joblib executor behind get_parameters / fit / fit_update / EM's E-step (SimParallel: batching, batch
order, pickle isolation), EM's batch_size knob and seed, the EM iteration history (re-run with max_iter = 1..K).
Oracle: pure-Python counting + closed forms; brute-force observed-data likelihood for EM."""
import copy
import math
import random

import numpy as np

from .. import seams, world as W
from ..core import exc_brief, exc_site
from ..prng import shuffled, weighted
from ..realise import Mismatch, Names, factor_to_logical, make_frame, to_np
from ..refmodel import RefJoint, close, maxdiff

PROP = "C06"


def generate(streams, tier):
    big = tier == "thorough"
    r = streams.s("kind")
    world = W.gen_bn(streams, max_n=5, min_n=1, max_card=4, max_parents=3, max_joint=1024, force_str_labels="or_int", allow_card1=r.random() < 0.3,
                     state_modes=[("str", 3), ("int_sorted", 2), ("int", 1)])
    config = W.gen_bn_config(streams, world)
    rd = streams.s("data")
    nrows = rd.choice([1, 2, 3, 5, 8, 12, 20, 40, 60])
    rows = W.gen_rows(rd, world, nrows)
    wscale = rd.choice([1.0, 1.0, 1e-3, 1e-9, 1e6])  # weighted ML is invariant to the scale of the weights
    weights = [rd.choice([0.5, 1.0, 2.0, 3.0]) * wscale for _ in rows]
    rw = streams.s("workload")
    ops = []
    for _ in range(rw.randint(1, 3)):
        k = weighted(rw, [("mle", 4), ("bayes", 4), ("fit_update", 2), ("em_nolatent", 1), ("em", 2)])
        op = {"op": k, "n_jobs": rw.choice([1, 2, -1]), "jobseed": rw.randrange(2**31), "pass_state_names": rw.random() < 0.8,
              "via_fit": rw.random() < 0.4, "weighted": rw.random() < 0.25, "permute": rw.random() < 0.5, "permseed": rw.randrange(2**31)}
        if k == "bayes":
            op["prior"] = rw.choice(["K2", "BDeu", "dirichlet"])
            op["ess"] = rw.choice([1, 2.5, 5, 10, 0.5])
            op["pseudo"] = rw.choice(["scalar", "rows", "rows"])
            op["pseudo_as"] = rw.choice(["array", "array", "list"])
            op["pseudo_scalar"] = rw.choice([1, 2, 0.5, 3.25])
            op["pseudo_rowvals"] = [rw.choice([0.5, 1.0, 2.0, 4.0]) for _ in range(4)]
        if k == "fit_update":
            op["n_prev"] = rw.choice([None, 1, 10, 37, 0, 0.0, 2.5])   # 0: the previous parameters carry no weight at all
            op["first"] = rw.choice(["world", "mle"])
            op["new_rows"] = W.gen_rows(rd, world, rd.choice([1, 3, 10, 25]))
        if k in ("em", "em_nolatent"):
            n = world["n"]
            lat = []
            if k == "em" and n >= 2:
                lat = rw.sample(range(n), rw.randint(1, min(2, n - 1)))
            op.update(latents=lat, seed=rw.randrange(1000), max_iter=rw.randint(1, 5 if not big else 8), batch_size=rw.choice([1, 2, 3, 7, 1000]),
                      init_cpds=rw.random() < 0.3)
            if k == "em" and lat and rw.random() < 0.3:
                # a complete starting point supplied by the caller, each table listing its states in the caller's own order: the
                # likelihood of the start is known, so the FIRST iteration is covered by "never decreases" as well
                op["init_cpds"] = "all"
                op["init_perm_seed"] = rw.randrange(2**31)
            op["pass_state_names"] = True
            op["weighted"] = False
        ops.append(op)
    return {"world": world, "config": config, "rows": rows, "weights": weights, "ops": ops}


def describe(case):
    w = case["world"]
    return {"n": w["n"], "card": w["card"], "parents": w["parents"], "labels": w["labels"], "states": w["states"], "rows": len(case["rows"]),
            "ops": [{k: v for k, v in op.items() if k not in ("new_rows",)} for op in case["ops"]]}


# --------------------------------------------------------------------------------------------------
# reference
# --------------------------------------------------------------------------------------------------
def ref_counts(world, rows, weights, v):
    """Counts of node v given its graph parents, axes sorted by logical variable index."""
    card = world["card"]
    scope = sorted([v] + list(world["parents"][v]))
    arr = np.zeros([card[u] for u in scope], dtype=float)
    for r, w in zip(rows, weights):
        arr[tuple(r[u] for u in scope)] += w
    return scope, arr


def normalise_over(arr, scope, v, uniform_if_zero=True):
    ax = scope.index(v)
    tot = arr.sum(axis=ax, keepdims=True)
    out = np.where(tot > 0, arr / np.where(tot > 0, tot, 1.0), 1.0 / arr.shape[ax] if uniform_if_zero else 0.0)
    return out


def project_world(world, rows, declared):
    """If state names are not declared to the estimator, the states of a variable are the observed ones, sorted."""
    if declared is True or declared == 1:
        return world, rows, None
    n = world["n"]
    keep = set() if not declared else set(declared)  # a list / set: only these variables are declared
    names = Names(world)
    maps = []
    w2 = copy.deepcopy(world)
    for v in range(n):
        if v in keep:
            maps.append({s_: s_ for s_ in range(world["card"][v])})
            continue
        seen = sorted({r[v] for r in rows}, key=lambda s: (str(type(names.S(v, s))), names.S(v, s)))
        maps.append({old: new for new, old in enumerate(seen)})
        w2["card"][v] = len(seen)
        w2["states"][v] = [W.enc(names.S(v, s)) for s in seen]
    rows2 = [[maps[v][r[v]] for v in range(n)] for r in rows]
    w2["tables"] = None
    return w2, rows2, maps


def build_structure(world, config, names, latents=()):
    from pgmpy.models import BayesianNetwork

    m = BayesianNetwork(latents=set(names.L(v) for v in latents)) if latents else BayesianNetwork()
    if config.get("nodes_first", True):
        for v in config["node_order"]:
            m.add_node(names.L(v), latent=v in latents) if v in latents else m.add_node(names.L(v))
    for a, b in config["edge_order"]:
        m.add_edge(names.L(a), names.L(b))
    for v in config["node_order"]:
        if names.L(v) not in m.nodes():
            m.add_node(names.L(v))
    if latents:
        m.latents = set(names.L(v) for v in latents)
    return m


def compare_cpds(ctx, cpds, names, world, want_fn, what, tol=dict(atol=1e-9, rtol=1e-7), only=None):
    """cpds: iterable of TabularCPD; want_fn(v) -> (scope sorted, array)."""
    n = world["n"]
    seen = set()
    ok = True
    for c in cpds:
        if c.variable not in names.lab2idx:
            ctx.fail("structure", f"{PROP}:unknown_cpd_variable:{what}", repr(c.variable))
            return False
        v = names.lab2idx[c.variable]
        seen.add(v)
        try:
            lv, arr = factor_to_logical(c.to_factor(), names, expect_vars=[v] + list(world["parents"][v]))
        except Mismatch as e:
            ctx.fail("aligned", f"{PROP}:labels:{what}", {"var": v, "why": str(e)})
            ok = False
            continue
        scope, want = want_fn(v)
        if not close(arr, want, **tol):
            ctx.fail("closed_form", f"{PROP}:values:{what}", {"var": v, "parents": world["parents"][v], "card": world["card"], "got": arr.round(6).tolist(),
                                                              "want": np.asarray(want).round(6).tolist()})
            ok = False
    if seen != (set(range(n)) if only is None else set(only)):
        ctx.fail("structure", f"{PROP}:missing_cpd:{what}", {"missing": sorted((set(range(n)) if only is None else set(only)) - seen)})
        ok = False
    return ok


def execute(case, ctx):
    world, config = case["world"], case["config"]
    ctx.fault("relabel")
    _n0 = Names(case["world"])
    ctx.sig_order("labels", [_n0.lab2idx[x] for x in set(_n0.labels)])
    ctx.fault("insertion_permute")
    for i, op in enumerate(case["ops"]):
        ctx.step_no = i
        ctx.steps += 1
        seams.install_parallel(random.Random(op["jobseed"]), ctx)
        try:
            if op["op"] in ("mle", "bayes"):
                _fit_op(case, ctx, op)
            elif op["op"] == "fit_update":
                _fit_update(case, ctx, op)
            else:
                _em(case, ctx, op)
        finally:
            seams.reset_environment()


def _estimate(op, model, df, sn, names, world, shared=None):
    """Runs the estimator described by op; returns list of CPDs (and the model if fitted through model.fit).
    shared: per-operation dict; the prior object built on the first call is handed to every later call of the operation."""
    from pgmpy.estimators import BayesianEstimator, MaximumLikelihoodEstimator

    kw = {}
    if op.get("weighted"):
        kw["weighted"] = True
    if op["op"] == "bayes":
        pt = op["prior"]
        kw["prior_type"] = pt
        if pt == "BDeu":
            kw["equivalent_sample_size"] = op["ess"]
        if pt == "dirichlet":
            if op["pseudo"] == "scalar":
                kw["pseudo_counts"] = op["pseudo_scalar"]
            elif shared is not None and "pc" in shared:
                kw["pseudo_counts"] = shared["pc"]
            else:
                pc = {}
                for v in range(world["n"]):
                    ncols = int(np.prod([world["card"][p] for p in world["parents"][v]])) if world["parents"][v] else 1
                    col = np.asarray(op["pseudo_rowvals"][: world["card"][v]], dtype=float).reshape(-1, 1)
                    pc[names.L(v)] = np.repeat(col, ncols, axis=1) if op.get("pseudo_as", "array") == "array" else np.repeat(col, ncols, axis=1).tolist()
                kw["pseudo_counts"] = pc
                if shared is not None:
                    shared["pc"] = pc
    Est = MaximumLikelihoodEstimator if op["op"] == "mle" else BayesianEstimator
    if op.get("via_fit"):
        fkw = dict(kw)
        if sn is not None:
            fkw["state_names"] = sn
        if op["jobseed"] % 3 == 0:
            # the same call on a plain DAG (structure only, e.g. what a structure search returns): it hands back a fitted network
            from pgmpy.base import DAG

            dag = DAG()
            dag.add_nodes_from(list(model.nodes()))
            dag.add_edges_from(list(model.edges()))
            fitted = dag.fit(df, estimator=Est, n_jobs=op["n_jobs"], **fkw)
            return list(fitted.get_cpds()), fitted
        model.fit(df, estimator=Est, n_jobs=op["n_jobs"], **fkw)
        return list(model.get_cpds()), model
    est = Est(model, df, state_names=sn) if sn is not None else Est(model, df)
    return est.get_parameters(n_jobs=op["n_jobs"], **kw), None


def _want_fn(op, world, rows, weights):
    card = world["card"]

    def fn(v):
        scope, cnt = ref_counts(world, rows, weights, v)
        if op["op"] == "mle":
            return scope, normalise_over(cnt, scope, v)
        pt = op["prior"]
        r = card[v]
        q = int(np.prod([card[p] for p in world["parents"][v]])) if world["parents"][v] else 1
        if pt == "K2":
            pc = np.ones_like(cnt)
        elif pt == "BDeu":
            pc = np.ones_like(cnt) * (float(op["ess"]) / (r * q))
        else:
            if op["pseudo"] == "scalar":
                pc = np.ones_like(cnt) * op["pseudo_scalar"]
            else:
                shape = [card[u] if u == v else 1 for u in scope]
                pc = np.ones_like(cnt) * np.asarray(op["pseudo_rowvals"][:r], dtype=float).reshape(shape)
        return scope, normalise_over(cnt + pc, scope, v)
    return fn


def _fit_op(case, ctx, op):
    world, config = case["world"], case["config"]
    rows = case["rows"]
    weights = case["weights"] if op.get("weighted") else [1.0] * len(rows)
    declared = op.get("pass_state_names", True)
    w2, rows2, maps = project_world(world, rows, declared)
    names = Names(w2)
    if not declared and op["op"] == "bayes" and op.get("prior") == "dirichlet" and op.get("pseudo") == "rows":
        return  # pseudo-count arrays are shaped by the declared cardinalities
    spare = (not declared) and op["jobseed"] % 2 == 0
    if spare:
        ctx.probe("categorical_dtype_with_unused_category")
    df = make_frame(w2, names, rows2, weights=weights if op.get("weighted") else None, spare_category=spare)
    sn = {names.L(v): list(names.states[v]) for v in range(w2["n"])} if declared else None
    model = build_structure(w2, config, names)
    what = op["op"] + (":" + op["prior"] if op["op"] == "bayes" else "")
    ctx.event(op["op"], op.get("prior"), op["n_jobs"], declared, op.get("via_fit"), op.get("weighted"))
    if any(len({r[v] for r in rows}) < world["card"][v] for v in range(world["n"])):
        ctx.probe("declared_state_unobserved" if declared else "state_unobserved_and_undeclared")
    shared = {}
    try:
        cpds, fitted = _estimate(op, model, df, sn, names, w2, shared)
    except Exception as e:
        ctx.fail("succeeds", f"{PROP}:raise:{what}:{type(e).__name__}:{exc_site(e)}", {"exc": exc_brief(e), "via_fit": op.get("via_fit"), "parents": world["parents"]})
        return
    ctx.checked += 1
    want = _want_fn(op, w2, rows2, weights)
    ok = compare_cpds(ctx, cpds, names, w2, want, what)
    if ok and "pc" in shared:
        # the same prior object serves a second fit (a user keeps one prior for several data sets / structures)
        ctx.fault("object_history")
        try:
            cpds_b, _ = _estimate(op, build_structure(w2, config, names), df, sn, names, w2, shared)
        except Exception as e:
            ctx.fail("succeeds", f"{PROP}:raise:{what}:second_fit:{type(e).__name__}:{exc_site(e)}", exc_brief(e))
            return
        ok = compare_cpds(ctx, cpds_b, names, w2, want, what + ":second_fit_same_prior")
    if any((np.asarray(ref_counts(w2, rows2, weights, v)[1]).sum(axis=sorted([v] + list(w2["parents"][v])).index(v)) == 0).any() for v in range(w2["n"])):
        ctx.probe("unseen_parent_configuration")
    if fitted is not None:
        try:
            if fitted.check_model() is not True:
                ctx.fail("validates", f"{PROP}:check_model_false:{what}", "check_model returned a non-True value")
        except Exception as e:
            ctx.fail("validates", f"{PROP}:fitted_model_invalid:{what}:{type(e).__name__}", exc_brief(e))
    if ok and op.get("weighted") and sn is not None:
        # ONE estimator object asked for the same node without and with the row weights, in both orders (a user sweeping options)
        from pgmpy.estimators import BayesianEstimator, MaximumLikelihoodEstimator

        Est = MaximumLikelihoodEstimator if op["op"] == "mle" else BayesianEstimator
        ekw = {}
        if op["op"] == "bayes":
            ekw["prior_type"] = op["prior"]
            if op["prior"] == "BDeu":
                ekw["equivalent_sample_size"] = op["ess"]
            if op["prior"] == "dirichlet":
                ekw["pseudo_counts"] = op["pseudo_scalar"]
        if not (op["op"] == "bayes" and op["prior"] == "dirichlet" and op["pseudo"] != "scalar"):
            ctx.fault("object_history")
            est = Est(build_structure(w2, config, names), df, state_names=sn)
            want_u = _want_fn(op, w2, rows2, [1.0] * len(rows2))
            v_ = max(range(w2["n"]), key=lambda u: (len(w2["parents"][u]), -u))
            order = [False, True] if op["jobseed"] % 2 else [True, False]
            try:
                for flag in order + order[:1]:
                    cpd = est.estimate_cpd(names.L(v_), weighted=flag, **ekw)
                    if not compare_cpds(ctx, [cpd], names, w2, (want if flag else want_u), what + (":reused_estimator:weighted" if flag else ":reused_estimator:unweighted"), only=[v_]):
                        break
            except Exception as e:
                ctx.fail("succeeds", f"{PROP}:raise:{what}:reused_estimator:{type(e).__name__}:{exc_site(e)}", exc_brief(e))
    if ok and op.get("permute"):
        # invariance to row order, column order, edge insertion order
        rp = random.Random(op["permseed"])
        idx = list(range(len(rows2)))
        rp.shuffle(idx)
        cols = list(range(w2["n"]))
        rp.shuffle(cols)
        df2 = make_frame(w2, names, [rows2[j] for j in idx], columns=cols, weights=[weights[j] for j in idx] if op.get("weighted") else None)
        cfg2 = dict(config, node_order=shuffled(rp, config["node_order"]), edge_order=shuffled(rp, config["edge_order"]), nodes_first=rp.random() < 0.5)
        model2 = build_structure(w2, cfg2, names)
        seams.reset_environment()
        seams.install_parallel(random.Random(op["jobseed"] + 1), ctx)
        try:
            cpds2, _ = _estimate(op, model2, df2, sn, names, w2, shared)
        except Exception as e:
            ctx.fail("invariance", f"{PROP}:raise_permuted:{what}:{type(e).__name__}:{exc_site(e)}", exc_brief(e))
            return
        compare_cpds(ctx, cpds2, names, w2, want, what + ":permuted")


def _fit_update(case, ctx, op):
    from pgmpy.models import BayesianNetwork
    from ..realise import build_bn

    world, config = case["world"], case["config"]
    names = Names(world)
    rows0 = case["rows"]
    new_rows = op["new_rows"]
    card = world["card"]
    n = world["n"]
    # previous CPDs: the world's own tables, or an MLE fit on the first data set
    if op["first"] == "world":
        model = build_bn(world, config, names)
        prev = {v: RefJoint._bn_factor(world, v).reshape([card[u] for u in sorted([v] + list(world["parents"][v]))]) for v in range(n)}
        n_prev_default = len(new_rows)
    else:
        model = build_structure(world, config, names)
        df0 = make_frame(world, names, rows0)
        sn = {names.L(v): list(names.states[v]) for v in range(n)}
        try:
            model.fit(df0, state_names=sn)
        except Exception as e:
            ctx.fail("succeeds", f"{PROP}:raise:first_fit:{type(e).__name__}:{exc_site(e)}", exc_brief(e))
            return
        prev = {}
        for v in range(n):
            scope, cnt = ref_counts(world, rows0, [1.0] * len(rows0), v)
            prev[v] = normalise_over(cnt, scope, v)
        n_prev_default = len(new_rows)
    n_prev = op["n_prev"] if op["n_prev"] is not None else n_prev_default
    if n_prev == 0:
        # without any prior weight the update is plain counting, defined where every parent configuration occurs in the new rows
        for v in range(n):
            scope, cnt = ref_counts(world, new_rows, [1.0] * len(new_rows), v)
            if (np.asarray(cnt).sum(axis=scope.index(v)) == 0).any():
                return
        ctx.probe("fit_update_zero_prior_weight")
    df = make_frame(world, names, new_rows)
    ctx.event("fit_update", op["first"], op["n_prev"], op["n_jobs"], len(new_rows))
    try:
        if op["n_prev"] is None:
            model.fit_update(df, n_jobs=op["n_jobs"])
        else:
            model.fit_update(df, n_prev_samples=op["n_prev"], n_jobs=op["n_jobs"])
    except Exception as e:
        ctx.fail("succeeds", f"{PROP}:raise:fit_update:{type(e).__name__}:{exc_site(e)}", {"exc": exc_brief(e), "parents": world["parents"], "labels": world["labels"]})
        return
    ctx.checked += 1

    def want(v):
        scope, cnt = ref_counts(world, new_rows, [1.0] * len(new_rows), v)
        return scope, normalise_over(cnt + prev[v] * n_prev, scope, v)

    multi = any(len(world["parents"][v]) >= 2 for v in range(n))
    if multi:
        ctx.probe("fit_update_multi_parent")
    compare_cpds(ctx, model.get_cpds(), names, world, want, "fit_update")
    try:
        model.check_model()
    except Exception as e:
        ctx.fail("validates", f"{PROP}:fitted_model_invalid:fit_update:{type(e).__name__}", exc_brief(e))


def _observed_loglik(world, names, cpds, rows_obs, observed):
    """Observed-data log-likelihood of a full CPD set (latents marginalised by brute force)."""
    n = world["n"]
    card = world["card"]
    arr = np.ones(tuple(card))
    for c in cpds:
        lv, a = factor_to_logical(c.to_factor(), names)
        arr = arr * a.reshape([card[u] if u in lv else 1 for u in range(n)])
    lat = tuple(u for u in range(n) if u not in observed)
    marg = arr.sum(axis=lat) if lat else arr
    ll = 0.0
    for r in rows_obs:
        p = float(marg[tuple(r[u] for u in sorted(observed))])
        if p <= 0:
            return float("-inf"), arr
        ll += math.log(p)
    return ll, arr


def _em(case, ctx, op):
    from pgmpy.estimators import ExpectationMaximization
    from pgmpy.factors.discrete import TabularCPD

    world0, config = case["world"], case["config"]
    n = world0["n"]
    lat = [v for v in op.get("latents", []) if v < n]
    # latent variables take the states 0..k-1 inside EM
    world = copy.deepcopy(world0)
    for v in lat:
        world["states"][v] = None
    names = Names(world)
    observed = [v for v in range(n) if v not in lat]
    if not observed:
        return
    rows = case["rows"]
    df = make_frame(world, names, rows, columns=observed)
    sn = {names.L(v): list(names.states[v]) for v in observed}
    latent_card = {names.L(v): world["card"][v] for v in lat}
    ctx.event("em", lat, op["seed"], op["max_iter"], op["batch_size"], op["n_jobs"])
    if op["batch_size"] < len({tuple(r[v] for v in observed) for r in rows}):
        ctx.fault("batch_knob")
    init = {}
    ll0 = None
    if op.get("init_cpds") == "all" and lat:
        rp = random.Random(op.get("init_perm_seed", 0))
        perms = {v: (list(range(world["card"][v])) if v in lat else shuffled(rp, range(world["card"][v]))) for v in range(n)}
        for v in range(n):
            ps = list(world["parents"][v])
            t = np.asarray(world["tables"][v], dtype=float).reshape([world["card"][v]] + [world["card"][p] for p in ps])
            for ax, u in enumerate([v] + ps):
                t = np.take(t, perms[u], axis=ax)
            snames = {names.L(u): [names.states[u][i] for i in perms[u]] for u in [v] + ps}
            init[names.L(v)] = TabularCPD(names.L(v), world["card"][v], t.reshape(world["card"][v], -1).tolist(),
                                          evidence=[names.L(p) for p in ps] or None, evidence_card=[world["card"][p] for p in ps] or None,
                                          state_names=snames)
        try:
            ll0, _ = _observed_loglik(world, names, list(init.values()), rows, observed)
        except Mismatch:
            ll0 = None
        ctx.probe("em_complete_start_point")
    elif op.get("init_cpds") and lat:
        # initial CPDs for the latent variables themselves: the world's tables
        from ..realise import make_cpd

        for v in lat:
            init[names.L(v)] = make_cpd(world, names, v)

    def run(k, n_jobs, batch_size, jobseed):
        seams.reset_environment()
        seams.install_parallel(random.Random(jobseed), ctx)
        model = build_structure(world, config, names, latents=lat)
        kw = {}
        if init:
            kw["init_cpds"] = {k_: v_.copy() for k_, v_ in init.items()}
        route = op["jobseed"] % 4
        if route in (0, 1):
            # the same estimation through the fit() dispatch of the network (0) or of a plain DAG carrying the latent set (1)
            target = model
            if route == 1:
                from pgmpy.base import DAG

                target = DAG(latents=set(model.latents))
                target.add_nodes_from(list(model.nodes()))
                target.add_edges_from(list(model.edges()))
            fitted = target.fit(df, estimator=ExpectationMaximization, state_names=sn, n_jobs=n_jobs, latent_card=latent_card or None, max_iter=k, atol=1e-30,
                                batch_size=batch_size, seed=op["seed"], show_progress=False, **kw)
            return list(fitted.get_cpds())
        em = ExpectationMaximization(model, df, state_names=sn)
        return em.get_parameters(latent_card=latent_card or None, max_iter=k, atol=1e-30, n_jobs=n_jobs, batch_size=batch_size, seed=op["seed"],
                                 show_progress=False, **kw)

    lls = []
    floor_hit = False
    last = None
    for k in range(1, op["max_iter"] + 1):
        try:
            cpds = run(k, op["n_jobs"], op["batch_size"], op["jobseed"] + k)
        except Exception as e:
            ctx.fail("succeeds", f"{PROP}:raise:em:{type(e).__name__}:{exc_site(e)}", {"exc": exc_brief(e), "latents": lat, "k": k})
            return
        ctx.checked += 1
        try:
            ll, arr = _observed_loglik(world, names, cpds, rows, observed)
        except Mismatch as e:
            ctx.fail("aligned", f"{PROP}:labels:em", str(e))
            return
        for c in cpds:
            vals = to_np(c.values)
            if np.any((vals > 0) & (vals < 1e-8)) or np.any(vals == 0):
                floor_hit = True
        lls.append(ll)
        last = cpds
        if not lat:
            break
    if not lat:
        want = _want_fn({"op": "mle"}, world, rows, [1.0] * len(rows))
        compare_cpds(ctx, last, names, world, want, "em_without_latents")
        return
    ctx.probe("em_iterations", len(lls))
    # the implementation floors every likelihood factor at 1e-10: with exact zeros among the parameters a latent state that is
    # impossible for a row keeps a weight of the order 1e-10, which can cost the likelihood a relative 1e-9 or so per row; such
    # iterates are held to a looser bound (1e-6 relative), all others to 1e-9
    slack = 1e-6 if floor_hit else 1e-9
    if floor_hit:
        ctx.probe("em_floor_loose_bound")
    if True:
        if ll0 is not None and np.isfinite(ll0) and min(float(np.min(to_np(c.values))) for c in init.values()) > 1e-8:
            seq = [ll0] + lls   # the caller's starting point counts as iteration 0
        else:
            seq = lls
        for a, b in zip(seq, seq[1:]):
            if b < a - slack * max(1.0, abs(a)):
                ctx.fail("monotone", f"{PROP}:em_likelihood_decreased", {"lls": seq, "latents": lat, "seed": op["seed"], "from_start_point": len(seq) != len(lls)})
                break
    # restart: the caller takes the parameters reached so far (a point EM has already climbed to), writes the tables down with the
    # states of the observed variables in an order of his own, and continues from there with one more iteration: the likelihood
    # must not fall below what had been reached ("never decreases from one iteration to the next", for a supplied start as well)
    if op.get("restart", True) and np.isfinite(lls[-1]):
        rp = random.Random(op.get("init_perm_seed", op["seed"]) + 17)
        init2 = {}
        try:
            for c in last:
                vals = to_np(c.values)
                vars_ = list(c.variables)
                sn2 = {}
                for ax, var in enumerate(vars_):
                    order_ = list(range(vals.shape[ax]))
                    if names.lab2idx[var] not in lat:
                        rp.shuffle(order_)
                    vals = np.take(vals, order_, axis=ax)
                    sn2[var] = [c.state_names[var][i_] for i_ in order_]
                init2[c.variable] = TabularCPD(c.variable, vals.shape[0], vals.reshape(vals.shape[0], -1).tolist(), evidence=vars_[1:] or None,
                                               evidence_card=list(vals.shape[1:]) or None, state_names=sn2)
            seams.reset_environment()
            seams.install_parallel(random.Random(op["jobseed"] + 4242), ctx)
            model = build_structure(world, config, names, latents=lat)
            em = ExpectationMaximization(model, df, state_names=sn)
            nxt = em.get_parameters(latent_card=latent_card or None, max_iter=1, atol=1e-30, n_jobs=op["n_jobs"], batch_size=op["batch_size"], seed=op["seed"],
                                    show_progress=False, init_cpds=init2)
            ll_next, _ = _observed_loglik(world, names, nxt, rows, observed)
            ctx.probe("em_restart_checked")
            if ll_next < lls[-1] - slack * max(1.0, abs(lls[-1])):
                ctx.fail("monotone", f"{PROP}:em_likelihood_decreased:after_restart", {"reached": lls[-1], "after_one_more_iteration": ll_next, "latents": lat, "seed": op["seed"]})
                return
        except Mismatch as e:
            ctx.fail("aligned", f"{PROP}:labels:em", str(e))
            return
        except Exception as e:
            ctx.fail("succeeds", f"{PROP}:raise:em_restart:{type(e).__name__}:{exc_site(e)}", {"exc": exc_brief(e), "latents": lat})
            return
    # schedule independence: another batch size / worker schedule, same seed -> same parameters
    try:
        alt_bs = 1000 if op["batch_size"] != 1000 else 2
        cpds2 = run(len(lls), 2 if op["n_jobs"] == 1 else 1, alt_bs, op["jobseed"] + 777)
    except Exception as e:
        ctx.fail("succeeds", f"{PROP}:raise:em_alt_schedule:{type(e).__name__}:{exc_site(e)}", exc_brief(e))
        return
    a = {c.variable: c for c in last}
    for c in cpds2:
        try:
            lv1, x1 = factor_to_logical(a[c.variable].to_factor(), names)
            lv2, x2 = factor_to_logical(c.to_factor(), names)
        except (Mismatch, KeyError) as e:
            ctx.fail("aligned", f"{PROP}:labels:em", str(e))
            return
        if not close(x1, x2, atol=1e-9, rtol=1e-6):
            ctx.fail("schedule_independent", f"{PROP}:em_depends_on_batching", {"var": names.lab2idx[c.variable], "batch_size": [op["batch_size"], alt_bs],
                                                                              "maxdiff": maxdiff(x1, x2)})
            return


def shrink_candidates(case):
    from . import c01

    w = case["world"]
    n = w["n"]
    rows = case["rows"]
    if len(rows) > 1:
        for cut in (len(rows) // 2, len(rows) - 1):
            out = copy.deepcopy(case)
            out["rows"] = rows[:cut]
            out["weights"] = case["weights"][:cut]
            yield out
    for c in c01.shrink_candidates({"world": w, "config": case["config"], "ops": []}):
        if any(not isinstance(l, str) for l in c["world"]["labels"]):
            continue
        if c["world"]["states"] != w["states"]:
            continue  # column dtypes depend on the state names
        out = copy.deepcopy(case)
        out["world"], out["config"] = c["world"], c["config"]
        yield out
    for i, op in enumerate(case["ops"]):
        for key, val in (("n_jobs", 1), ("permute", False), ("weighted", False), ("via_fit", False), ("pass_state_names", True)):
            if op.get(key) != val and key in op:
                out = copy.deepcopy(case)
                out["ops"][i][key] = val
                yield out
        if op["op"] == "fit_update" and len(op["new_rows"]) > 1:
            out = copy.deepcopy(case)
            out["ops"][i]["new_rows"] = op["new_rows"][: len(op["new_rows"]) // 2]
            yield out
        if op["op"] == "em" and op["max_iter"] > 1:
            out = copy.deepcopy(case)
            out["ops"][i]["max_iter"] = op["max_iter"] - 1
            yield out
