"""C02 - junction-tree belief propagation is exact and calibrated.

The hash-order scheduler (PYTHONHASHSEED x labels x insertion orders) decides clique order, spanning tree,
factor-to-clique assignment and the traversal of calibration and out-of-clique queries.  Oracle: brute-force
joint of the source factors."""
import copy

import numpy as np

from .. import seams, world as W
from ..core import exc_brief, exc_site
from ..prng import shuffled, weighted
from ..realise import Mismatch, Names, build_bn, build_mn, factor_to_logical, make_factor, to_np
from ..refmodel import RefJoint, close, int_evidence, maxdiff, ref_junction_tree
from . import c01

PROP = "C02"


def bn_as_factors(world):
    out = []
    for v in range(world["n"]):
        ps = world["parents"][v]
        out.append({"scope": [v] + list(ps), "values": np.asarray(world["tables"][v], dtype=float).reshape(-1).tolist()})
    return out


def world_factors(world):
    return bn_as_factors(world) if world["kind"] == "bn" else world["factors"]


def world_edges(world):
    """Interaction (moral) graph of the world."""
    es = set()
    for f in world_factors(world):
        sc = f["scope"]
        for i in range(len(sc)):
            for j in range(i + 1, len(sc)):
                es.add(frozenset((sc[i], sc[j])))
    if world["kind"] != "bn":
        for a, b in world["edges"]:
            es.add(frozenset((a, b)))
    return [tuple(sorted(e)) for e in sorted(es, key=lambda e: sorted(e))]


def generate(streams, tier):
    big = tier == "thorough"
    rc = streams.s("long_chain")
    if rc.random() < (0.004 if big else 0.012):   # ten seconds of CPU per run
        # scale: a clique tree that is one long path (an unrolled HMM of more than a thousand steps).  Depth, not width: whatever walks
        # the tree must not assume it is shallow.  Reference: forward-backward recursion in numpy.
        L = rc.randint(1030, 1150)
        return {"long_chain": {"L": L, "seed": rc.randrange(2**31), "q": sorted(rc.sample(range(L), 3)), "ev": rc.randrange(L), "ev_state": rc.randrange(2)},
                "world": {"kind": "chain", "n": L, "card": [], "labels": [], "states": [], "flags": {}}, "config": {"kind": "long_chain"}, "shared_engine": True,
                "ops": [{"op": "calibrate"}, {"op": "query"}], "backend": "numpy"}
    r = streams.s("kind")
    kind = weighted(r, [("bn", 4), ("mn", 3), ("fg", 2), ("jt", 2)])
    if kind == "bn":
        world = W.gen_bn(streams, max_n=7 if big else 6, min_n=1, max_joint=16384 if big else 2048, connected=True,
                         max_parents=3)
    else:
        world = W.gen_mn(streams, max_n=7 if big else 6, min_n=1 if kind != "fg" else 2, max_joint=16384 if big else 2048, connected=True,
                         dup_rate=0.0, scale_rate=0.3, hub_rate=0.25)
    rb = streams.s("bigcard")
    if kind in ("mn", "fg") and rb.random() < 0.06:
        # two variables with a three-digit number of states shared by two cliques, a third clique sharing one of them: the sepsets
        # {A, B} and {A} differ by four orders of magnitude in table size, whatever the clique tree weighs has to rank them by
        # the number of shared VARIABLES
        c = rb.randint(101, 110)
        labels, lm = W.gen_labels(streams.s("labels_bigcard"), 5, "str")
        scopes = [[0, 1, 2], [0, 1, 3], [0, 4]]
        card = [c, c, 2, 2, 2]
        factors = [{"scope": shuffled(rb, sc), "values": None} for sc in scopes]
        for f in factors:
            size = 1
            for v in f["scope"]:
                size *= card[v]
            f["values"] = [rb.randint(1, 40) / 8.0 for _ in range(size)]
        world = {"kind": "mn", "n": 5, "card": card, "edges": [[0, 1], [0, 2], [1, 2], [0, 3], [1, 3], [0, 4]], "factors": shuffled(rb, factors),
                 "labels": labels, "states": [None] * 5, "flags": {"style": "bigcard", "density": 0, "label_mode": lm, "state_named": False, "ring": False}}
    rm = streams.s("mixed_labels")
    if rm.random() < 0.1 and world.get("flags", {}).get("style") != "bigcard":
        # variable names of several types in one model (numbers next to strings next to pairs): hashable, not mutually orderable
        pool = [1, 2, 7, 0, "a", "b", "node", ["t", 0], ["t", 1], 3.5, -4]
        world["labels"] = rm.sample(pool, world["n"])
        world["flags"]["label_mode"] = "mixedtype"
    ri = streams.s("insertion")
    cfg = {"kind": kind}
    if kind == "bn":
        cfg["bn"] = W.gen_bn_config(streams, world)
    else:
        cfg["factor_order"] = shuffled(ri, range(len(world["factors"])))
        cfg["edge_order"] = shuffled(ri, world["edges"])
        cfg["node_order"] = shuffled(ri, range(world["n"]))
    if kind == "mn":
        cfg["triangulate"] = ri.choice([None, None, "H1", "H2", "H3", "H4", "H5", "H6"])
    if kind == "jt":
        # clique tree built by the simulator; clique tuples, edge order and potential scopes permuted
        rj = streams.s("jt")
        order = shuffled(rj, range(world["n"])) if rj.random() < 0.5 else None
        cl, tree = ref_junction_tree(world["n"], world_edges(world), order)
        cfg["cliques"] = [shuffled(rj, c) for c in cl]
        cfg["tree"] = shuffled(rj, [list(e) if rj.random() < 0.5 else [e[1], e[0]] for e in tree])
        cfg["potential_scopes"] = [shuffled(rj, c) for c in cl]
        cfg["clique_order"] = shuffled(rj, range(len(cl)))
    ref = RefJoint.from_factors(world["card"], world_factors(world))
    rw = streams.s("workload")
    ops = []
    nops = rw.randint(2, 7)
    shared = rw.random() < 0.5
    str_labels = isinstance(world["labels"][0], str)
    for _ in range(nops):
        k = weighted(rw, [("calibrate", 2), ("max_calibrate", 2), ("query", 6)])
        if k == "query":
            q = gen_query(rw, world, ref, allow_virtual=(kind == "bn" and (str_labels or rw.random() < 0.2)))
            ops.append(q)
        else:
            ops.append({"op": k})
    backend = streams.s("config").choice(seams.BACKENDS)
    if world.get("flags", {}).get("style") == "bigcard":
        ops, backend = ops[:3], "numpy"   # tables of 30 000 cells: seconds per step, so a short history on the default backend
    return {"world": world, "config": cfg, "shared_engine": shared, "ops": ops, "backend": backend}


def gen_query(r, world, ref, allow_virtual):
    n = world["n"]
    vs = list(range(n))
    q = r.sample(vs, r.randint(1, min(3, n)))
    rest = [v for v in vs if v not in q]
    ev = {}
    for v in shuffled(r, rest)[: r.choice([0, 0, 1, 1, 2, 3])]:
        for s in shuffled(r, range(world["card"][v])):
            t = dict(ev)
            t[v] = s
            if ref.prob_evidence(t) > 1e-12 * max(ref.partition(), 1e-300):
                ev = t
                break
    virt = []
    if allow_virtual and r.random() < 0.3:
        cands = [v for v in vs if v not in ev]
        for v in shuffled(r, cands)[:1]:
            lik = [r.choice([0.0, 0.1, 0.25, 0.5, 0.9, 1.0]) for _ in range(world["card"][v])]
            if ref.prob_evidence(ev, [(v, lik)]) > 1e-12 * max(ref.partition(), 1e-300):
                virt.append([v, lik])
    return {"op": "query", "q": q, "ev": {str(k): v for k, v in ev.items()}, "virt": virt, "joint": r.random() < 0.6}


def describe(case):
    if case.get("long_chain"):
        return {"kind": "long_chain", "L": case["long_chain"]["L"]}
    w = case["world"]
    return {"kind": case["config"]["kind"], "n": w["n"], "card": w["card"], "labels": w["labels"],
            "factor_scopes": [f["scope"] for f in world_factors(w)], "shared_engine": case["shared_engine"], "ops": case["ops"][:4]}


def build_model(case, names):
    from pgmpy.factors.discrete import DiscreteFactor
    from pgmpy.models import FactorGraph, JunctionTree, MarkovNetwork

    world, cfg = case["world"], case["config"]
    kind = cfg["kind"]
    if kind == "bn":
        return build_bn(world, cfg["bn"], names)
    if kind == "mn":
        m = MarkovNetwork()
        for v in cfg["node_order"]:
            m.add_node(names.L(v))
        for a, b in cfg["edge_order"]:
            m.add_edge(names.L(a), names.L(b))
        m.add_factors(*[make_factor(world, names, world["factors"][i]) for i in cfg["factor_order"]])
        if cfg.get("triangulate"):
            m.triangulate(heuristic=cfg["triangulate"], inplace=True)
        return m
    if kind == "fg":
        g = FactorGraph()
        for v in cfg["node_order"]:
            g.add_node(names.L(v))
        fs = [make_factor(world, names, world["factors"][i]) for i in cfg["factor_order"]]
        for f in fs:
            g.add_node(f)
        g.add_factors(*fs)
        for f in fs:
            for x in f.variables:
                g.add_edge(x, f)
        return g
    # junction tree built by the simulator
    card = world["card"]
    cl = cfg["cliques"]
    jt = JunctionTree()
    for i in cfg["clique_order"]:
        jt.add_node(tuple(names.L(v) for v in cl[i]))
    for a, b in cfg["tree"]:
        jt.add_edge(tuple(names.L(v) for v in cl[a]), tuple(names.L(v) for v in cl[b]))
    # assign every factor to the first clique (in clique order) containing its scope
    pots = {i: np.ones([card[v] for v in sorted(cl[i])]) for i in range(len(cl))}
    for f in world_factors(world):
        for i in range(len(cl)):
            if set(f["scope"]) <= set(cl[i]):
                sc = sorted(cl[i])
                arr = RefJoint.factor_array(card, f)  # broadcastable over all n axes
                arr = arr.reshape([card[v] if v in f["scope"] else 1 for v in range(world["n"])])
                sub = arr.reshape([card[v] if v in f["scope"] else 1 for v in sc])
                pots[i] = pots[i] * sub
                break
        else:
            raise RuntimeError("factor scope not covered by a clique of the reference tree")
    fs = []
    for i in cfg["clique_order"]:
        sc = sorted(cl[i])
        want = cfg["potential_scopes"][i]
        arr = np.transpose(pots[i], [sc.index(v) for v in want])
        kw = {}
        if any(world["states"][u] is not None for u in want):
            kw["state_names"] = {names.L(u): list(names.states[u]) for u in want}
        fs.append(DiscreteFactor([names.L(v) for v in want], [card[v] for v in want], arr.reshape(-1), **kw))
    jt.add_factors(*fs)
    return jt


def _long_chain(case, ctx):
    """A path-shaped junction tree of L-1 pairwise cliques over binary variables; beliefs and queries against forward-backward."""
    from pgmpy.factors.discrete import DiscreteFactor
    from pgmpy.inference import BeliefPropagation
    from pgmpy.models import JunctionTree

    lc = case["long_chain"]
    L = lc["L"]
    rng = np.random.default_rng(lc["seed"])
    # row-stochastic transition tables (an HMM's hidden chain), the first clique carries the initial distribution: every partial
    # product stays inside the floating-point range
    pots = rng.integers(1, 9, size=(L - 1, 2, 2)).astype(float)
    pots = pots / pots.sum(axis=2, keepdims=True)
    pots[0] = pots[0] * np.array([[0.3], [0.7]])
    names_ = ["x%04d" % i for i in range(L)]
    jt = JunctionTree()
    cliques = [(names_[i], names_[i + 1]) for i in range(L - 1)]
    jt.add_nodes_from(cliques)
    for a, b in zip(cliques, cliques[1:]):
        # networkx directly: JunctionTree.add_edge runs a path search per edge (quadratic for a path); the sepsets are non-empty by construction
        super(JunctionTree, jt).add_edge(a, b)
    jt.add_factors(*[DiscreteFactor(list(c), [2, 2], pots[i].reshape(-1)) for i, c in enumerate(cliques)])
    ctx.event("long_chain", L)
    ctx.probe("long_chain_world")

    def fb(ev=None):
        # normalised forward / backward messages over the variables; ev = (index, state) or None
        mask = np.ones((L, 2))
        if ev is not None:
            mask[ev[0]] = 0.0
            mask[ev[0], ev[1]] = 1.0
        f = np.zeros((L, 2)); b = np.zeros((L, 2))
        f[0] = mask[0] / mask[0].sum()
        for i in range(1, L):
            m = (f[i - 1] @ pots[i - 1]) * mask[i]
            f[i] = m / m.sum()
        b[L - 1] = mask[L - 1] / mask[L - 1].sum()
        for i in range(L - 2, -1, -1):
            m = (pots[i] @ b[i + 1]) * mask[i]
            b[i] = m / m.sum()
        return f, b

    f, b = fb()
    try:
        bp = BeliefPropagation(jt)
        ctx.steps += 1
        bp.calibrate()
        cb = bp.get_clique_beliefs()
    except Exception as e:
        ctx.fail("succeeds", f"{PROP}:raise:long_chain:calibrate:{type(e).__name__}:{exc_site(e)}", exc_brief(e))
        return
    ctx.checked += 1
    for i in sorted(set([0, L - 2] + [int(x) for x in rng.integers(0, L - 1, size=12)])):
        want = f[i][:, None] * pots[i] * b[i + 1][None, :]
        want = want / want.sum()
        phi = cb[cliques[i]]
        got = to_np(phi.values)
        if list(phi.variables) != list(cliques[i]):
            got = got.T
        got = got / got.sum()
        if not close(got, want, atol=1e-9, rtol=1e-6):
            ctx.fail("calibrated", f"{PROP}:belief:long_chain", {"clique": i, "got": got.round(6).tolist(), "want": want.round(6).tolist()})
            return
    e_i, e_s = lc["ev"], lc["ev_state"]
    qs = [q for q in lc["q"] if q != e_i][:2]
    fe, be = fb((e_i, e_s))
    try:
        ctx.steps += 1
        res = bp.query([names_[q] for q in qs], evidence={names_[e_i]: e_s}, joint=False, show_progress=False)
    except Exception as e:
        ctx.fail("succeeds", f"{PROP}:raise:long_chain:query:{type(e).__name__}:{exc_site(e)}", exc_brief(e))
        return
    ctx.checked += 1
    for q in qs:
        want = fe[q] * be[q]
        want = want / want.sum()
        got = to_np(res[names_[q]].values)
        if not close(got, want, atol=1e-9, rtol=1e-6):
            ctx.fail("value", f"{PROP}:value:long_chain_query", {"q": q, "evidence": [e_i, e_s], "got": got.round(6).tolist(), "want": want.round(6).tolist()})
            return


def execute(case, ctx):
    from pgmpy.inference import BeliefPropagation

    if case.get("long_chain"):
        return _long_chain(case, ctx)
    world, cfg = case["world"], case["config"]
    names = Names(world)
    kind = cfg["kind"]
    ref = RefJoint.from_factors(world["card"], world_factors(world))
    z = ref.partition()
    ctx.event("kind", kind, world["n"])
    ctx.fault("relabel")
    ctx.fault("insertion_permute")
    if cfg.get("triangulate"):
        ctx.fault("option_swarm")
    backend = seams.effective_backend(case.get("backend", "numpy"), [list(f["values"]) for f in world_factors(world)])
    seams.set_backend(backend)
    if backend == "torch":
        from ..refmodel import set_torch_rounding

        set_torch_rounding(True)  # values pass through float32 at every factor construction (known finding of C01)
    if backend != "numpy":
        ctx.fault("backend_config")
    single = backend.endswith("float32")
    if single:
        ctx.probe("dtype_float32")
    model = build_model(case, names)
    try:
        bp = BeliefPropagation(model)
    except Exception as e:
        ctx.fail("succeeds", f"{PROP}:raise_ctor:{kind}:{type(e).__name__}:{exc_site(e)}", exc_brief(e))
        return
    # observed layout = order signature
    try:
        cliques = [tuple(sorted(names.lab2idx[x] for x in c)) for c in bp.junction_tree.nodes()]
        edges = [tuple(sorted((tuple(sorted(names.lab2idx[x] for x in a)), tuple(sorted(names.lab2idx[x] for x in b))))) for a, b in bp.junction_tree.edges()]
        ctx.sig_order("layout", cliques, sorted(edges))
        if len(cliques) > 1:
            ctx.probe("multi_clique_tree")
    except Exception:
        pass
    for i, op in enumerate(case["ops"]):
        ctx.step_no = i
        ctx.steps += 1
        k = op["op"]
        if not case["shared_engine"] and i > 0:
            try:
                bp = BeliefPropagation(build_model(case, names))
            except Exception as e:
                ctx.fail("succeeds", f"{PROP}:raise_ctor:{kind}:{type(e).__name__}:{exc_site(e)}", exc_brief(e))
                return
        if k in ("calibrate", "max_calibrate"):
            ctx.event(k)
            try:
                getattr(bp, k)()
                cb = bp.get_clique_beliefs()
                sb = bp.get_sepset_beliefs()
            except Exception as e:
                ctx.fail("succeeds", f"{PROP}:raise:{k}:{type(e).__name__}:{exc_site(e)}", exc_brief(e))
                continue
            ctx.checked += 1
            opn = "sum" if k == "calibrate" else "max"
            check_beliefs(ctx, names, ref, cb, sb, opn, k)
        else:
            q = [v for v in op["q"] if v < world["n"]]
            ev = {v: s for v, s in int_evidence(op["ev"]).items() if v < world["n"] and s < world["card"][v] and v not in q}
            virt = [(int(v), list(l)) for v, l in op.get("virt", []) if int(v) < world["n"] and len(l) == world["card"][int(v)] and int(v) not in ev]
            if kind != "bn":
                virt = []
            if not q or ref.prob_evidence(ev, virt) <= 1e-12 * max(z, 1e-300):
                continue
            if single and (ref.prob_evidence(ev, virt) < 1e-5 * z or any(0 < x < 1e-3 for _, l in virt for x in l)):
                continue
            in_several = [v for v in ev if sum(1 for c in bp.junction_tree.nodes() if names.L(v) in c) > 1]
            if in_several:
                ctx.probe("evidence_in_several_cliques")
            if virt:
                ctx.fault("virtual_evidence_rebind")
            ctx.event("query", q, sorted(ev.items()), virt, op["joint"])
            try:
                kw = {}
                if virt:
                    kw["virtual_evidence"] = c01.make_virtual(world, names, virt)
                res = bp.query([names.L(v) for v in q], evidence=names.ev(ev) or None, joint=op["joint"], show_progress=False, **kw)
            except Exception as e:
                sig = f"{PROP}:raise:query:{type(e).__name__}:{exc_site(e)}"
                ctx.fail("succeeds", sig, {"exc": exc_brief(e), "kind": kind})
                continue
            ctx.checked += 1
            check_query(ctx, names, ref, res, q, ev, virt, op["joint"], kind)


def _norm(a):
    s = a.sum()
    return a / s if s > 0 else a


def check_beliefs(ctx, names, ref, cb, sb, opn, what):
    for clique, phi in cb.items():
        try:
            lv, arr = factor_to_logical(phi, names, expect_vars=[names.lab2idx[x] for x in clique])
        except Mismatch as e:
            ctx.fail("labels", f"{PROP}:labels:{what}:clique", str(e))
            continue
        want = ref.marginal_unnorm(lv, op=opn)
        if not close(_norm(arr), _norm(want), atol=1e-9, rtol=1e-6):
            ctx.fail("calibrated", f"{PROP}:belief:{what}:clique", {"clique": lv, "maxdiff": maxdiff(_norm(arr), _norm(want))})
    for key, phi in sb.items():
        a, b = tuple(key)
        sep = sorted(names.lab2idx[x] for x in set(a) & set(b))
        if phi is None:
            ctx.fail("calibrated", f"{PROP}:belief:{what}:sepset_missing", {"sepset": sep})
            continue
        try:
            lv, arr = factor_to_logical(phi, names, expect_vars=sep)
        except Mismatch as e:
            ctx.fail("labels", f"{PROP}:labels:{what}:sepset", str(e))
            continue
        want = ref.marginal_unnorm(lv, op=opn)
        if not close(_norm(arr), _norm(want), atol=1e-9, rtol=1e-6):
            ctx.fail("calibrated", f"{PROP}:belief:{what}:sepset", {"sepset": lv, "maxdiff": maxdiff(_norm(arr), _norm(want))})
        # adjacent cliques agree on the sepset
        for c in (a, b):
            if c in cb:
                try:
                    lc, carr = factor_to_logical(cb[c], names)
                except Mismatch:
                    continue
                axes = tuple(i for i, v in enumerate(lc) if v not in lv)
                m = carr.sum(axis=axes) if opn == "sum" else carr.max(axis=axes)
                if not close(_norm(m), _norm(arr), atol=1e-9, rtol=1e-6):
                    ctx.fail("calibrated", f"{PROP}:agree:{what}", {"clique": lc, "sepset": lv})


def check_query(ctx, names, ref, res, q, ev, virt, joint, kind):
    what = "query"
    try:
        if joint:
            lv, arr = factor_to_logical(res, names, expect_vars=q)
            want = ref.posterior(lv, ev, virt)
            if not close(arr, want, atol=1e-9, rtol=1e-6):
                prop = close(_norm(arr), want, atol=1e-9, rtol=1e-6)
                ctx.fail("value", f"{PROP}:value:{what}" + (":unnormalised" if prop else ""),
                         {"got": arr.round(8).tolist(), "want": want.round(8).tolist(), "kind": kind})
        else:
            if not isinstance(res, dict):
                raise Mismatch(f"joint=False returned {type(res).__name__}")
            keys = sorted(names.lab2idx.get(k, -1) for k in res)
            if keys != sorted(q):
                raise Mismatch(f"keys {keys} != requested {sorted(q)}")
            for k, phi in res.items():
                v = names.lab2idx[k]
                lv, arr = factor_to_logical(phi, names, expect_vars=[v])
                want = ref.posterior([v], ev, virt)
                if not close(arr, want, atol=1e-9, rtol=1e-6):
                    prop = close(_norm(arr), want, atol=1e-9, rtol=1e-6)
                    ctx.fail("value", f"{PROP}:value:{what}" + (":unnormalised" if prop else ""),
                             {"var": v, "got": arr.round(8).tolist(), "want": want.round(8).tolist(), "kind": kind})
    except Mismatch as e:
        ctx.fail("labels", f"{PROP}:labels:{what}", {"why": str(e), "kind": kind})


def shrink_candidates(case):
    if case.get("long_chain"):
        return
    w = case["world"]
    if case.get("backend", "numpy") != "numpy":
        c = copy.deepcopy(case)
        c["backend"] = "numpy"
        yield c
    if case["shared_engine"]:
        c = copy.deepcopy(case)
        c["shared_engine"] = False
        yield c
    if w["kind"] == "bn":
        for c in c01.shrink_candidates({"world": w, "config": case["config"]["bn"], "ops": []}):
            if not W.is_connected_bn(c["world"]):
                continue
            out = copy.deepcopy(case)
            out["world"] = c["world"]
            out["config"]["bn"] = c["config"]
            yield out
    else:
        n = w["n"]
        if any(not (isinstance(l, str) and l == f"v{i}") for i, l in enumerate(w["labels"])):
            c = copy.deepcopy(case)
            c["world"]["labels"] = [f"v{i}" for i in range(n)]
            yield c
        if any(s is not None for s in w["states"]):
            c = copy.deepcopy(case)
            c["world"]["states"] = [None] * n
            yield c
        if case["config"].get("triangulate"):
            c = copy.deepcopy(case)
            c["config"]["triangulate"] = None
            yield c
    for i, op in enumerate(case["ops"]):
        if op["op"] == "query":
            if op.get("virt"):
                c = copy.deepcopy(case)
                c["ops"][i]["virt"] = []
                yield c
            for k in list(op["ev"]):
                c = copy.deepcopy(case)
                del c["ops"][i]["ev"][k]
                yield c
            if len(op["q"]) > 1:
                for v in op["q"]:
                    c = copy.deepcopy(case)
                    c["ops"][i]["q"].remove(v)
                    yield c
