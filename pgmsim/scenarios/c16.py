"""C16 - purity, repeatability and representation independence.

Three populations (one per run, chosen by the PRNG):
  purity  - deep canonical snapshots of every argument before and after a call
  history - one shared engine answers a history of questions (virtual evidence, refused questions, repeats);
            after every step the answer must equal that of a fresh engine on a freshly built model
  twin    - the same logical run under another label map / state names / state order / insertion order /
            numeric backend must give the same canonical answers
(The hash-seed dimension is covered by running every population under each worker's PYTHONHASHSEED and comparing
with hash-independent reference values.)"""
import copy

import numpy as np

from .. import seams, world as W
from ..core import exc_brief, exc_site
from ..prng import shuffled, subset, weighted
from ..realise import (Mismatch, Names, build_bn, factor_to_logical, make_frame, snapshot_bn, snapshot_factor,
                       snapshot_frame, to_np)
from ..refmodel import RefJoint, close, int_evidence, maxdiff
from . import c01

PROP = "C16"


# ==================================================================================================
# generation
# ==================================================================================================
def generate(streams, tier):
    r = streams.s("mode")
    mode = weighted(r, [("purity", 4), ("history", 5), ("twin", 3)])
    big = tier == "thorough"
    if mode == "history":
        engine = weighted(r, [("VE", 1), ("BP", 1)])
        world = W.gen_bn(streams, max_n=7 if big else 6, min_n=2, max_joint=4096, connected=(engine == "BP"), allow_card1=engine != "BP")
        config = W.gen_bn_config(streams, world)
        ref = RefJoint.from_bn(world)
        rw = streams.s("workload")
        rf = streams.s("faults")
        ops = []
        fault_rate = rw.choice([0.0, 0.15, 0.3])
        virt_rate = rw.choice([0.0, 0.3, 0.6])
        for _ in range(rw.randint(3, 12 if not big else 20)):
            if rf.random() < fault_rate:
                kind = rf.choice(["unknown_state", "overlap", "bad_virt_card", "unknown_var", "bad_virt_states", "bad_virt_states"])
                q = c01.gen_query(rw, world, ref, allow_virtual=False)
                ops.append({"op": "bad", "kind": kind, "q": q["q"], "ev": q["ev"], "api": rf.choice(["query", "map"])})
                continue
            k = weighted(rw, [("query", 5), ("map", 3), ("repeat", 2), ("map_all", 1), ("variant", 3)])
            if k == "repeat":
                ops.append({"op": "repeat"})
                continue
            lastq = next((o for o in reversed(ops) if o.get("op") in ("query", "map")), None)
            if k == "variant" and lastq is None:
                k = "query"
            if k == "variant":
                # same question shape (query variables, observed variables, virtual-evidence variables), other values:
                # what a cache keyed on the shape of a question would confuse
                q = copy.deepcopy(lastq)
                for item in q["virt"]:
                    for _ in range(5):
                        lik = [rw.choice([0.0, 0.1, 0.25, 0.5, 0.9, 1.0]) for _ in item[1]]
                        trial = [[v, (lik if v == item[0] else l)] for v, l in q["virt"]]
                        if ref.prob_evidence(int_evidence(q["ev"]), [(v, l) for v, l in trial]) > 1e-12:
                            item[1] = lik
                            break
                for key in list(q["ev"]):
                    for s_ in shuffled(rw, range(world["card"][int(key)])):
                        trial = dict(q["ev"])
                        trial[key] = s_
                        if ref.prob_evidence(int_evidence(trial), [(v, l) for v, l in q["virt"]]) > 1e-12:
                            q["ev"] = trial
                            break
                q["op"] = rw.choice(["query", "map"])
                if q["ev"] and rw.random() < 0.5:
                    # same node set, roles swapped: one query variable becomes evidence and one evidence variable is queried
                    nodeset = set(q["q"]) | {int(k_) for k_ in q["ev"]}
                    # prefer an evidence variable whose parents lie outside the question's node set: its prior is what a
                    # network pruned for the first question has already thrown away
                    pref = [k_ for k_ in sorted(q["ev"]) if set(world["parents"][int(k_)]) - nodeset]
                    ek = rw.choice(pref or sorted(q["ev"]))
                    qv = rw.choice(q["q"])
                    trial_ev = {k_: v_ for k_, v_ in q["ev"].items() if k_ != ek}
                    for s_ in shuffled(rw, range(world["card"][qv])):
                        t_ = dict(trial_ev)
                        t_[str(qv)] = s_
                        if ref.prob_evidence(int_evidence(t_), [(v, l) for v, l in q["virt"] if v != qv and str(v) not in t_]) > 1e-12:
                            q["ev"] = t_
                            q["q"] = [x for x in q["q"] if x != qv] + [int(ek)]
                            q["virt"] = [[v, l] for v, l in q["virt"] if v != qv and str(v) not in t_]
                            if isinstance(q.get("order"), list):
                                q["order"] = "MinFill"
                            break
                if not q["virt"] and rw.random() < 0.3:
                    v = rw.choice([x for x in range(world["n"]) if str(x) not in q["ev"]] or [0])
                    lik = [rw.choice([0.1, 0.25, 0.5, 0.9, 1.0]) for _ in range(world["card"][v])]
                    if str(v) not in q["ev"]:
                        q["virt"] = [[v, lik]]
                ops.append(q)
                ctx_variant = True
                continue
            q = c01.gen_query(rw, world, ref, allow_virtual=rw.random() < virt_rate)
            q["op"] = k
            if engine == "BP" or k != "query":
                q["order"] = "MinFill" if k != "query" else None
            ops.append(q)
        return {"mode": mode, "engine": engine, "world": world, "config": config, "ops": ops}
    if mode == "purity":
        world = W.gen_bn(streams, max_n=5, min_n=2, max_joint=1024, max_parents=2, connected=True, allow_card1=False, force_str_labels=r.random() < 0.7,
                         state_modes=[("default", 2), ("str", 3), ("int_sorted", 2)])
        if r.random() < 0.25:
            # root tables whose columns sum to slightly less than one: the samplers repair such weights on the fly - in a copy
            W.round_roots(world, streams.s("rounding"))
        config = W.gen_bn_config(streams, world)
        rw = streams.s("workload")
        rows = W.gen_rows(streams.s("data"), world, rw.randint(15, 50))
        menu = ["ve_query", "ve_map", "bp_query", "bp_map", "bp_calibrate", "score", "local_score", "mle", "bayes_est", "fit_copy",
                "hill_climb", "pc", "write_bif", "write_xmlbif", "write_uai", "write_net", "to_markov", "to_junction", "mn_convert",
                "forward_sample", "rejection_sample", "lw_sample", "predict", "causal_query", "state_prob", "do", "gibbs", "simulate",
                "tree_search", "exhaustive", "em", "fit_update", "get_random_cpds", "copy", "mn_ve_query", "mn_bp_query", "fg_bp_query", "jt_bp_query",
                "mn_map", "elimination_order", "markov_blanket_etc", "fg_mp_query", "fg_mp_query"]
        ops = []
        ref = RefJoint.from_bn(world)
        core_calls = ["ve_query", "ve_map", "bp_query", "bp_map", "simulate", "causal_query", "predict"]
        for _ in range(rw.randint(3, 8)):
            name = rw.choice(menu) if rw.random() < 0.7 else rw.choice(core_calls)
            q = c01.gen_query(rw, world, ref, allow_virtual=False)
            if rw.random() < 0.5:
                # virtual evidence next to hard evidence: the engines build auxiliary evidence entries internally
                cand = [v for v in range(world["n"]) if str(v) not in q["ev"]]
                if cand:
                    v = rw.choice(cand)
                    lik = [rw.choice([0.1, 0.25, 0.5, 0.9, 1.0]) for _ in range(world["card"][v])]
                    if ref.prob_evidence(int_evidence(q["ev"]), [(v, lik)]) > 1e-9:
                        q["virt"] = [[v, lik]]
            ops.append({"op": name, "q": q["q"], "ev": q["ev"], "virt": q["virt"], "seed": rw.randrange(2**31), "opt": rw.randrange(1000)})
        return {"mode": mode, "world": world, "config": config, "rows": rows, "ops": ops}
    # twin
    world = W.gen_bn(streams, max_n=5, min_n=2, max_joint=1024, max_parents=2, connected=True, allow_card1=False, label_mode="str",
                     state_modes=[("str", 3), ("int_sorted", 1), ("default", 1)])
    config = W.gen_bn_config(streams, world)
    rt = streams.s("twin")
    n = world["n"]
    # twin transformation: new labels (any type), renamed + permuted states, other insertion order, maybe torch
    labels2, lm = W.gen_labels(rt, n)
    perms = [shuffled(rt, range(world["card"][v])) for v in range(n)]
    # data-based questions need homogeneous state types per column (str or int): see DESIGN.md section C16
    smode = weighted(rt, [("str", 3), ("int", 2), ("default", 1)])
    states2 = [W.gen_states(rt, world["card"][v], smode) for v in range(n)]
    if smode == "default":
        perms = [list(range(world["card"][v])) for v in range(n)]  # default names are positional: no reordering possible
    twin = {"labels": labels2, "states": states2, "perms": perms, "backend": rt.choice(["numpy", "numpy", "torch", "torch", "numpy:float32", "torch:float32"]),
            "config": W.gen_bn_config(streams.child("twin"), world)}
    rw = streams.s("workload")
    ref = RefJoint.from_bn(world)
    rows = W.gen_rows(streams.s("data"), world, rw.randint(15, 40))
    ops = []
    for _ in range(rw.randint(3, 8)):
        k = weighted(rw, [("ve_query", 4), ("bp_query", 3), ("map_value", 2), ("score", 2), ("mle", 2), ("bayes_est", 1), ("partition", 1), ("factor_ops", 2)])
        q = c01.gen_query(rw, world, ref, allow_virtual=False)
        ops.append({"op": k, "q": q["q"], "ev": q["ev"], "order": q["order"], "opt": rw.randrange(1000)})
    return {"mode": mode, "world": world, "config": config, "twin": twin, "rows": rows, "ops": ops}


def describe(case):
    w = case["world"]
    return {"mode": case["mode"], "engine": case.get("engine"), "n": w["n"], "card": w["card"], "parents": w["parents"], "labels": w["labels"],
            "ops": [{k: v for k, v in op.items() if k not in ("virt",)} for op in case["ops"][:5]]}


def execute(case, ctx):
    ctx.event("mode", case["mode"])
    _n0 = Names(case["world"])
    ctx.sig_order("labels", [_n0.lab2idx[x] for x in set(_n0.labels)])
    {"history": execute_history, "purity": execute_purity, "twin": execute_twin}[case["mode"]](case, ctx)


# ==================================================================================================
# history monitor
# ==================================================================================================
def canon_answer(res, names, q, joint=True):
    """Canonical (logical) form of a query answer; raises Mismatch."""
    if isinstance(res, dict) and not joint:
        out = {}
        for k, phi in res.items():
            lv, arr = factor_to_logical(phi, names)
            out[str(lv)] = arr
        return out
    lv, arr = factor_to_logical(res, names, expect_vars=q)
    return {"joint": arr}


def same_answer(a, b, single=False):
    """single: one side computed in float32 (about 7 significant digits per operation)."""
    if type(a) is not type(b):
        return False
    if isinstance(a, dict):
        if sorted(a) != sorted(b):
            return False
        return all(same_answer(a[k], b[k], single) for k in a)
    return close(a, b, atol=1e-5, rtol=1e-3) if single else close(a, b, atol=1e-8, rtol=1e-6)


def execute_history(case, ctx):
    from pgmpy.inference import BeliefPropagation, VariableElimination

    world, config = case["world"], case["config"]
    names = Names(world)
    ref = RefJoint.from_bn(world)
    Engine = VariableElimination if case["engine"] == "VE" else BeliefPropagation
    model = build_bn(world, config, names)
    ctx.fault("relabel")
    ctx.fault("insertion_permute")
    try:
        shared = Engine(model)
    except Exception as e:
        ctx.event("engine_ctor_raised", exc_site(e))
        return
    prev = None
    str_labels = isinstance(names.labels[0], str)
    for i, op in enumerate(case["ops"]):
        ctx.step_no = i
        ctx.steps += 1
        if op["op"] == "repeat":
            if prev is None:
                continue
            op = prev
            ctx.probe("same_question_twice")
        k = op["op"]
        if k == "bad":
            _bad_question(ctx, shared, names, world, op)
            continue
        q = list(op["q"]) if k != "map_all" else None
        ev = int_evidence(op["ev"])
        virt = [(int(v), list(l)) for v, l in op.get("virt", [])]
        if q is not None and (not q or set(q) & set(ev) or any(v >= world["n"] for v in q)):
            continue
        if any(v >= world["n"] or s >= world["card"][v] for v, s in ev.items()):
            continue
        if ref.prob_evidence(ev, virt) <= 1e-12:
            continue
        prev = op
        ctx.event(k, q, sorted(ev.items()), virt, op.get("joint"))
        if virt:
            ctx.fault("virtual_evidence_rebind")

        def ask(engine):
            kw = {}
            if virt:
                kw["virtual_evidence"] = c01.make_virtual(world, names, virt)
            if k == "query":
                if case["engine"] == "VE":
                    kw["elimination_order"] = c01._order_arg(op, names)
                return engine.query([names.L(v) for v in q], evidence=names.ev(ev) or None, joint=op["joint"], show_progress=False, **kw)
            if k == "map":
                return engine.map_query([names.L(v) for v in q], evidence=names.ev(ev) or None, show_progress=False, **kw)
            return engine.map_query(evidence=names.ev(ev) or None, show_progress=False, **kw)

        # fresh engine on a freshly built model: the reference behaviour for this step
        try:
            fresh_res = ask(Engine(build_bn(world, config, names)))
            fresh_exc = None
        except Exception as e:
            fresh_res, fresh_exc = None, e
        try:
            got = ask(shared)
            got_exc = None
        except Exception as e:
            got, got_exc = None, e
        ctx.checked += 1
        what = f"{case['engine']}:{'query' if k == 'query' else 'map'}"
        if fresh_exc is not None:
            # the question is refused even by a fresh engine: not a history effect (C01/C02/C03 territory)
            ctx.probe("fresh_engine_raised")
            if got_exc is None:
                ctx.probe("shared_answers_what_fresh_refuses")
            continue
        if got_exc is not None:
            ctx.fail("history", f"{PROP}:history_raise:{what}:{type(got_exc).__name__}:{exc_site(got_exc)}",
                     {"exc": exc_brief(got_exc), "step": i, "after": _history_kinds(case["ops"][:i])})
            continue
        try:
            if k == "query":
                a = canon_answer(got, names, q, op["joint"])
                b = canon_answer(fresh_res, names, q, op["joint"])
                if not same_answer(a, b):
                    ctx.fail("history", f"{PROP}:history_value:{what}", {"step": i, "got": _short(a), "fresh": _short(b), "after": _history_kinds(case["ops"][:i])})
            else:
                ka = sorted(repr(x) for x in got)
                kb = sorted(repr(x) for x in fresh_res)
                if ka != kb:
                    ctx.fail("history", f"{PROP}:history_keys:{what}", {"step": i, "got": ka, "fresh": kb, "after": _history_kinds(case["ops"][:i])})
                else:
                    # ties are free: compare the posterior value of both assignments
                    qq = q if q is not None else [v for v in range(world["n"]) if v not in ev]
                    post = ref.posterior(qq, ev, virt)
                    pa = _assignment_prob(post, qq, got, names)
                    pb = _assignment_prob(post, qq, fresh_res, names)
                    if pa is None or pb is None or not close(pa, pb, atol=1e-9, rtol=1e-6):
                        ctx.fail("history", f"{PROP}:history_value:{what}", {"step": i, "got": repr(got), "fresh": repr(fresh_res), "p_got": pa, "p_fresh": pb})
        except Mismatch as e:
            try:
                canon_answer(fresh_res, names, q, op.get("joint", True))
                ctx.fail("history", f"{PROP}:history_labels:{what}", {"step": i, "why": str(e), "after": _history_kinds(case["ops"][:i])})
            except Mismatch:
                ctx.probe("fresh_engine_mislabelled")  # not a history effect


def _history_kinds(ops):
    return [o["op"] + ("+virt" if o.get("virt") else "") + (":" + o["kind"] if o.get("kind") else "") for o in ops][-6:]


def _short(a):
    return {k: np.asarray(v).round(6).tolist() for k, v in a.items()}


def _assignment_prob(post, qvars, assignment, names):
    try:
        idx = []
        amap = {names.lab2idx[k]: v for k, v in assignment.items() if k in names.lab2idx}
        for v in qvars:
            idx.append(names.state_index(v, amap[v]))
        return float(post[tuple(idx)])
    except Exception:
        return None


def _bad_question(ctx, engine, names, world, op):
    """A question the API must refuse (or at least survive); afterwards the engine must still work (checked by the
    next steps against a fresh engine)."""
    q = [v for v in op["q"] if v < world["n"]]
    ev = {v: s for v, s in int_evidence(op["ev"]).items() if v < world["n"] and s < world["card"][v]}
    if not q:
        return
    kind = op["kind"]
    kw = {}
    qq = [names.L(v) for v in q]
    evv = names.ev(ev)
    if kind == "unknown_state":
        rest = [v for v in range(world["n"]) if v not in q]
        if not rest:
            return
        evv = dict(evv)
        evv[names.L(rest[0])] = "__no_such_state__"
    elif kind == "overlap":
        evv = dict(evv)
        evv[qq[0]] = names.S(q[0], 0)
    elif kind == "unknown_var":
        qq = qq + ["__no_such_variable__"]
    elif kind == "bad_virt_card":
        from pgmpy.factors.discrete import TabularCPD

        v = q[0]
        kw["virtual_evidence"] = [TabularCPD(names.L(v), world["card"][v] + 1, [[0.5]] * (world["card"][v] + 1))]
    elif kind == "bad_virt_states":
        # virtual evidence whose state names are not the variable's: refused while the engine is being rebound to the augmented copy
        from pgmpy.factors.discrete import TabularCPD

        rest = [v for v in range(world["n"]) if v not in q and v not in ev] or q
        v = rest[0]
        c_ = world["card"][v]
        kw["virtual_evidence"] = [TabularCPD(names.L(v), c_, [[1.0 / c_]] * c_, state_names={names.L(v): ["__other_%d" % j for j in range(c_)]})]
    ctx.event("bad", kind, op["api"])
    ctx.fault("engine_reject_probe")
    try:
        if op["api"] == "query":
            engine.query(qq, evidence=evv or None, show_progress=False, **kw)
        else:
            engine.map_query(qq, evidence=evv or None, show_progress=False, **kw)
        ctx.probe("bad_question_answered")
    except Exception:
        ctx.probe("bad_question_refused")


# ==================================================================================================
# purity monitor
# ==================================================================================================
def execute_purity(case, ctx):
    import pandas as pd

    world, config = case["world"], case["config"]
    names = Names(world)
    ref = RefJoint.from_bn(world)
    model = build_bn(world, config, names)
    df = make_frame(world, names, case["rows"])
    ctx.fault("relabel")
    str_labels = isinstance(names.labels[0], str)
    for i, op in enumerate(case["ops"]):
        ctx.step_no = i
        ctx.steps += 1
        name = op["op"]
        q = [v for v in op["q"] if v < world["n"]]
        ev = {v: s for v, s in int_evidence(op["ev"]).items() if v < world["n"] and s < world["card"][v] and v not in q}
        virt = [(int(v), list(l)) for v, l in op.get("virt", []) if int(v) < world["n"] and len(l) == world["card"][int(v)] and int(v) not in ev]
        if not q or ref.prob_evidence(ev, virt) <= 1e-12:
            continue
        args = {}  # name -> (object, snapshot function)
        args["model"] = (model, snapshot_bn)
        args["data"] = (df, snapshot_frame)
        call = _purity_call(name, op, world, names, model, df, q, ev, virt, args, ctx)
        if call is None:
            continue
        before = {k: fn(obj) for k, (obj, fn) in args.items()}
        ctx.event(name, q, sorted(ev.items()), bool(virt))
        raised = None
        try:
            call()
        except Exception as e:
            raised = e
            ctx.probe("call_raised:" + name)
        after = {k: fn(obj) for k, (obj, fn) in args.items()}
        ctx.checked += 1
        for k in before:
            if before[k] != after[k]:
                ctx.fail("purity", f"{PROP}:mutates:{name}:{k}", {"arg": k, "diff": _snap_diff(before[k], after[k]), "raised": exc_brief(raised) if raised else None})
        if any(f["clause"] == "purity" and f["step"] == i for f in ctx.failures):
            # continue the history on pristine objects so that one mutation is reported once
            model = build_bn(world, config, names)
            df = make_frame(world, names, case["rows"])


def _snap_diff(a, b):
    if isinstance(a, dict) and isinstance(b, dict):
        out = {}
        for k in sorted(set(a) | set(b), key=repr):
            if a.get(k) != b.get(k):
                out[k] = _snap_diff(a.get(k), b.get(k))
        return out
    sa, sb = repr(a), repr(b)
    return {"before": sa[:300], "after": sb[:300]}


def snapshot_graph(g):
    return {"nodes": sorted(repr(x) for x in g.nodes()), "edges": sorted(repr(e) for e in g.edges()),
            "latents": sorted(repr(x) for x in getattr(g, "latents", []))}


def snapshot_factor_list(fs):
    return sorted(repr(snapshot_factor(f)) for f in fs)


def snapshot_mn(m):
    return {"nodes": sorted(repr(x) for x in m.nodes()), "edges": sorted(repr(tuple(sorted(map(repr, e)))) for e in m.edges()),
            "factors": snapshot_factor_list(m.factors)}


def _purity_call(name, op, world, names, model, df, q, ev, virt, args, ctx):
    from pgmpy.inference import BeliefPropagation, VariableElimination

    L = names.L
    qq = [L(v) for v in q]
    evv = names.ev(ev) or None
    str_labels = isinstance(names.labels[0], str)
    opt = op.get("opt", 0)
    seed = op.get("seed", 0)

    def virt_objs():
        vs = c01.make_virtual(world, names, virt, as_factor=opt % 2 == 1)
        args["virtual_evidence"] = (vs, snapshot_factor_list)
        return vs

    if name in ("ve_query", "ve_map", "bp_query", "bp_map"):
        Eng = VariableElimination if name.startswith("ve") else BeliefPropagation
        kw = {}
        if virt:
            kw["virtual_evidence"] = virt_objs()
        ev_arg = dict(evv) if evv else None
        if ev_arg is not None:
            args["evidence"] = (ev_arg, lambda d: sorted((repr(k), repr(v)) for k, v in d.items()))
        q_arg = list(qq)
        args["variables"] = (q_arg, lambda l: [repr(x) for x in l])
        if name.endswith("query"):
            if name == "ve_query":
                kw["elimination_order"] = [None, "greedy", "MinFill", "MinWeight"][opt % 4]
            return lambda: Eng(model).query(q_arg, evidence=ev_arg, joint=opt % 3 != 0, show_progress=False, **kw)
        return lambda: Eng(model).map_query(q_arg, evidence=ev_arg, show_progress=False, **kw)
    if name in ("mn_ve_query", "mn_bp_query", "fg_bp_query", "jt_bp_query", "mn_map"):
        # inference on the undirected counterparts of the model: the Markov network / factor graph / junction tree must stay as they were
        mn = model.to_markov_model()
        if name == "fg_bp_query":
            from pgmpy.models import FactorGraph

            target = FactorGraph()
            target.add_nodes_from(mn.nodes())
            for f in mn.factors:
                target.add_node(f)
                target.add_edges_from([(x, f) for x in f.variables])
            target.add_factors(*mn.factors)
            snap = lambda g: {"factors": snapshot_factor_list(g.factors), "n_nodes": g.number_of_nodes(), "n_edges": g.number_of_edges()}
        elif name == "jt_bp_query":
            target = mn.to_junction_tree()
            snap = lambda g: {"nodes": sorted(repr(sorted(map(repr, c))) for c in g.nodes()), "edges": g.number_of_edges(), "factors": snapshot_factor_list(g.factors)}
        else:
            target = mn
            snap = snapshot_mn
        args["undirected_model"] = (target, snap)
        ev_arg = dict(evv) if evv else None
        if name == "mn_ve_query":
            return lambda: VariableElimination(target).query(list(qq), evidence=ev_arg, show_progress=False)
        if name == "mn_map":
            return lambda: VariableElimination(target).map_query(list(qq), evidence=ev_arg, show_progress=False)
        return lambda: BeliefPropagation(target).query(list(qq), evidence=ev_arg, joint=opt % 2 == 0, show_progress=False)
    if name == "fg_mp_query":
        # the message-passing engine for loop-free factor graphs: factors (also unnormalised unary ones) and virtual-evidence
        # objects must come out of a query as they went in
        from ..refmodel import has_undirected_cycle
        from pgmpy.factors.discrete import TabularCPD
        from pgmpy.inference.ExactInference import BeliefPropagationWithMessagePassing
        from pgmpy.models import FactorGraph

        edges_ = [(p, v) for v in range(world["n"]) for p in world["parents"][v]]
        if has_undirected_cycle(range(world["n"]), edges_):
            return None
        fs = [c.to_factor() for c in model.get_cpds()]
        for f in fs:
            if len(f.variables) == 1:
                f.values = f.values * (2 + opt % 5)  # an unnormalised prior: potentials are defined up to a constant
        target = FactorGraph()
        target.add_nodes_from([L(v) for v in range(world["n"])])
        for f in fs:
            target.add_node(f)
            target.add_edges_from([(x, f) for x in f.variables])
        target.add_factors(*fs)
        args["undirected_model"] = (target, lambda g: {"factors": snapshot_factor_list(g.factors), "n_nodes": g.number_of_nodes(), "n_edges": g.number_of_edges()})
        ev_no = {L(v): int(s_) for v, s_ in ev.items()} or None
        kw = {}
        free = [v for v in range(world["n"]) if v not in ev and v not in q]
        if free and opt % 2 == 0:
            v = free[opt % len(free)]
            lik = [[float(1 + (opt + j) % 4) * 3.0] for j in range(world["card"][v])]
            skw = {"state_names": {L(v): list(names.states[v])}} if world["states"][v] is not None else {}
            vobjs = [TabularCPD(L(v), world["card"][v], lik, **skw)]
            args["virtual_evidence"] = (vobjs, snapshot_factor_list)
            kw["virtual_evidence"] = vobjs
        ctx.probe("message_passing_engine")
        return lambda: BeliefPropagationWithMessagePassing(target).query(list(qq), evidence=ev_no, **kw)
    if name == "elimination_order":
        from pgmpy.inference.EliminationOrder import MinFill, MinNeighbors, MinWeight, WeightedMinFill

        Cls = [MinFill, MinNeighbors, MinWeight, WeightedMinFill][opt % 4]
        nodes = [L(v) for v in range(world["n"]) if v not in q]
        return lambda: Cls(model).get_elimination_order(nodes=nodes, show_progress=False)
    if name == "markov_blanket_etc":
        def f():
            model.get_markov_blanket(qq[0])
            model.get_independencies()
            model.moralize()
            model.get_ancestral_graph(list(qq))
            model.is_dconnected(qq[0], L((q[0] + 1) % world["n"]), observed=list((evv or {}).keys()))
            model.get_immoralities()
        return f
    if name == "bp_calibrate":
        def f():
            bp = BeliefPropagation(model)
            bp.calibrate() if opt % 2 else bp.max_calibrate()
            bp.get_clique_beliefs()
        return f
    if name in ("score", "local_score"):
        from pgmpy.estimators import AICScore, BDeuScore, BDsScore, BicScore, K2Score

        Sc = [K2Score, BDeuScore, BDsScore, BicScore, AICScore][opt % 5]
        if name == "score":
            return lambda: Sc(df).score(model)
        v = q[0]
        ps = [L(p) for p in world["parents"][v]]
        args["parents"] = (ps, lambda l: [repr(x) for x in l])
        return lambda: Sc(df).local_score(L(v), ps)
    if name in ("mle", "bayes_est"):
        from pgmpy.estimators import BayesianEstimator, MaximumLikelihoodEstimator

        sn = {L(v): list(names.states[v]) for v in range(world["n"])}
        args["state_names"] = (sn, lambda d: sorted((repr(k), repr(v)) for k, v in d.items()))
        if name == "mle":
            return lambda: MaximumLikelihoodEstimator(model, df, state_names=sn).get_parameters()
        pt = ["BDeu", "K2", "dirichlet"][opt % 3]
        kw = {"prior_type": pt}
        if pt == "BDeu":
            kw["equivalent_sample_size"] = 5
        if pt == "dirichlet":
            pc = {L(v): np.ones((world["card"][v], int(np.prod([world["card"][p] for p in world["parents"][v]])) if world["parents"][v] else 1)) for v in range(world["n"])}
            kw["pseudo_counts"] = pc
            args["pseudo_counts"] = (pc, lambda d: sorted((repr(k), v.tolist()) for k, v in d.items()))
        return lambda: BayesianEstimator(model, df, state_names=sn).get_parameters(**kw)
    if name == "fit_copy":
        # fit() is documented to add CPDs to the model it is called on: call it on a copy; data must stay
        from pgmpy.models import BayesianNetwork

        m2 = BayesianNetwork()
        m2.add_nodes_from(model.nodes())
        m2.add_edges_from(model.edges())
        return lambda: m2.fit(df)
    if name == "fit_update":
        m2 = model.copy()
        return lambda: m2.fit_update(df, n_prev_samples=10)
    if name == "em":
        from pgmpy.estimators import ExpectationMaximization

        return lambda: ExpectationMaximization(model, df).get_parameters(max_iter=2, seed=seed % 1000, show_progress=False)
    if name == "hill_climb":
        from pgmpy.base import DAG
        from pgmpy.estimators import HillClimbSearch

        start = DAG()
        start.add_nodes_from(list(df.columns))
        es = [(L(p), L(v)) for v in range(world["n"]) for p in world["parents"][v]]
        if opt % 2 and es:
            start.add_edges_from(es[: 1 + opt % len(es)])
        args["start_dag"] = (start, snapshot_graph)
        fixed = set(es[:1]) if opt % 3 == 0 and opt % 2 and es else set()
        args["fixed_edges"] = (fixed, lambda s: sorted(repr(x) for x in s))
        return lambda: HillClimbSearch(df).estimate(scoring_method=["k2", "bdeu", "bic"][opt % 3], start_dag=start, fixed_edges=fixed,
                                                    max_iter=5, show_progress=False)
    if name == "pc":
        from pgmpy.estimators import PC

        return lambda: PC(df).estimate(variant=["orig", "stable"][opt % 2], ci_test="chi_square", max_cond_vars=2, return_type=["dag", "cpdag", "skeleton"][opt % 3],
                                       show_progress=False, n_jobs=1)
    if name == "tree_search":
        from pgmpy.estimators import TreeSearch

        return lambda: TreeSearch(df, root_node=L(q[0]), n_jobs=1).estimate(show_progress=False)
    if name == "exhaustive":
        from pgmpy.estimators import ExhaustiveSearch

        if world["n"] > 4:
            return None
        return lambda: ExhaustiveSearch(df).estimate()
    if name.startswith("write_"):
        if not str_labels:
            return None
        from pgmpy.readwrite import BIFWriter, NETWriter, UAIWriter, XMLBIFWriter

        Wr = {"write_bif": BIFWriter, "write_xmlbif": XMLBIFWriter, "write_uai": UAIWriter, "write_net": NETWriter}[name]
        return lambda: str(Wr(model)) if name != "write_xmlbif" else Wr(model).__str__()
    if name == "to_markov":
        return lambda: model.to_markov_model()
    if name == "to_junction":
        return lambda: model.to_junction_tree()
    if name == "mn_convert":
        mn = model.to_markov_model()
        args["markov_network"] = (mn, snapshot_mn)
        k = opt % 4
        if k == 0:
            return lambda: mn.to_junction_tree()
        if k == 1:
            return lambda: mn.triangulate(heuristic="H%d" % (1 + opt % 6), inplace=False)
        if k == 2:
            return lambda: mn.get_partition_function()
        return lambda: mn.to_factor_graph()
    if name in ("forward_sample", "rejection_sample", "lw_sample"):
        from pgmpy.factors.discrete import State
        from pgmpy.sampling import BayesianModelSampling

        evl = [State(L(v), names.S(v, s)) for v, s in ev.items()]
        args["evidence"] = (evl, lambda l: [repr(tuple(x)) for x in l])
        if name == "forward_sample":
            return lambda: BayesianModelSampling(model).forward_sample(size=20, seed=seed, show_progress=False)
        if name == "rejection_sample":
            return lambda: BayesianModelSampling(model).rejection_sample(evidence=evl, size=10, seed=seed, show_progress=False)
        return lambda: BayesianModelSampling(model).likelihood_weighted_sample(evidence=evl, size=20, seed=seed, show_progress=False)
    if name == "gibbs":
        from pgmpy.sampling import GibbsSampling

        return lambda: GibbsSampling(model).sample(size=10, seed=seed)
    if name == "simulate":
        if not str_labels:
            return None
        kw = {}
        do = {}
        if opt % 2:
            v = q[0]
            # any state of the variable (an intervention sets it whatever its own distribution says)
            do = {L(v): names.S(v, (seed + opt) % world["card"][v])}
            args["do"] = (do, lambda d: sorted((repr(k), repr(v)) for k, v in d.items()))
        # evidence only without do: its probability under the mutilated network is not checked here (C07/C13 do that)
        evd = {} if do else dict(evv or {})
        args["evidence"] = (evd, lambda d: sorted((repr(k), repr(v)) for k, v in d.items()))
        if virt and opt % 3 == 0:
            kw["virtual_evidence"] = [c for c in virt_objs() if c.variables[0] not in do and c.variables[0] not in evd]
        return lambda: model.simulate(n_samples=10, do=do, evidence=evd, seed=seed, show_progress=False, **kw)
    if name == "predict":
        missing = q
        cols = [v for v in range(world["n"]) if v not in missing]
        if not cols:
            return None
        sub = df[[L(v) for v in cols]].head(6).copy()
        args["predict_data"] = (sub, snapshot_frame)
        return lambda: model.predict(sub, n_jobs=1)
    if name == "causal_query":
        if not str_labels:
            return None
        from pgmpy.inference import CausalInference

        v = q[0]
        rest = [u for u in range(world["n"]) if u != v and u not in W.ancestors(world, [v]) and u not in world["parents"][v]]
        if not rest:
            return None
        y = rest[opt % len(rest)]
        do = {L(v): names.S(v, 0)}
        args["do"] = (do, lambda d: sorted((repr(k), repr(x)) for k, x in d.items()))
        return lambda: CausalInference(model).query([L(y)], do=do, show_progress=False, inference_algo=["ve", "bp"][opt % 2])
    if name == "state_prob":
        st = {L(v): names.S(v, 0) for v in q}
        args["states"] = (st, lambda d: sorted((repr(k), repr(x)) for k, x in d.items()))
        return lambda: model.get_state_probability(st)
    if name == "do":
        return lambda: model.do([L(v) for v in q], inplace=False)
    if name == "get_random_cpds":
        return lambda: model.get_random_cpds(inplace=False)
    if name == "copy":
        def f():
            c = model.copy()
            c.remove_node(L(q[0]))  # marginalises the copy's CPDs in place
            c.add_node("__new__", latent=True)
        return f
    return None


# ==================================================================================================
# twin monitor
# ==================================================================================================
def twin_world(world, twin):
    """Same logical distribution; states of every variable renamed and listed in another order."""
    n = world["n"]
    w2 = copy.deepcopy(world)
    w2["labels"] = twin["labels"]
    perms = twin["perms"]
    card = world["card"]
    # new state i of variable v is old state perms[v][i]
    tables = []
    for v in range(n):
        ps = world["parents"][v]
        t = np.asarray(world["tables"][v], dtype=float).reshape([card[v]] + [card[p] for p in ps])
        t = np.take(t, perms[v], axis=0)
        for ax, p in enumerate(ps):
            t = np.take(t, perms[p], axis=1 + ax)
        tables.append(t.reshape(card[v], -1).tolist())
    w2["tables"] = tables
    w2["states"] = twin["states"]
    return w2


def execute_twin(case, ctx):
    from pgmpy.inference import BeliefPropagation, VariableElimination

    world, config, twin = case["world"], case["config"], case["twin"]
    n = world["n"]
    w2 = twin_world(world, twin)
    perms = twin["perms"]
    inv = [[p.index(i) for i in range(len(p))] for p in perms]  # old state s is new state inv[v][s]
    namesA, namesB = Names(world), Names(w2)
    ref = RefJoint.from_bn(world)
    ctx.fault("twin_config")
    ctx.fault("relabel")
    if twin["backend"] != "numpy":
        ctx.fault("backend_config")
    if twin["backend"].endswith("float32"):
        ctx.probe("dtype_float32")
    rows = case["rows"]
    rowsB = [[inv[v][r[v]] for v in range(n)] for r in rows]

    def build(side):
        if side == "A":
            seams.set_backend("numpy")
            return build_bn(world, config, namesA), namesA
        seams.set_backend(twin["backend"])
        return build_bn(w2, twin["config"], namesB), namesB

    def unperm(arr, lv):
        # answer of side B in B's logical state order -> A's logical state order
        for ax, v in enumerate(lv):
            arr = np.take(arr, inv[v], axis=ax)
        return arr

    for i, op in enumerate(case["ops"]):
        ctx.step_no = i
        ctx.steps += 1
        k = op["op"]
        q = [v for v in op["q"] if v < n]
        ev = {v: s for v, s in int_evidence(op["ev"]).items() if v < n and s < world["card"][v] and v not in q}
        if not q or ref.prob_evidence(ev) <= 1e-12:
            continue
        answers = {}
        errors = {}
        data_op = k in ("score", "mle", "bayes_est")
        if data_op and not isinstance(namesB.labels[0], (str, int)):
            ctx.probe("data_op_skipped_tuple_labels")
            continue
        backend_op = k in ("ve_query", "bp_query", "map_value", "factor_ops")
        for side in ("A", "B"):
            try:
                model, names = build(side)
                if not backend_op:
                    seams.set_backend("numpy")
                    model = build_bn(world, config, namesA) if side == "A" else build_bn(w2, twin["config"], namesB)
                evs = ev if side == "A" else {v: inv[v][s] for v, s in ev.items()}
                rws = rows if side == "A" else rowsB
                wld = world if side == "A" else w2
                answers[side] = _twin_answer(k, op, wld, names, model, q, evs, rws, side, unperm if side == "B" else None)
            except Mismatch as e:
                errors[side] = "labels: " + str(e)
            except Exception as e:
                errors[side] = exc_brief(e)
            finally:
                seams.set_backend("numpy")
        ctx.event(k, q, sorted(ev.items()), sorted(errors))
        ctx.checked += 1
        tag = f"{k}:{twin['backend']}"
        bad = None
        if errors:
            if len(errors) == 1:
                side = list(errors)[0]
                bad = ("twin_one_side_fails:" + k, {"side": side, "error": errors[side], "twin_labels": twin["labels"], "backend": twin["backend"]})
            else:
                ctx.probe("both_sides_raise:" + k)
                continue
        else:
            a, b = answers["A"], answers["B"]
            if a is None or b is None:
                continue
            if not same_answer(a, b, single=backend_op and twin["backend"].endswith("float32")):
                bad = ("twin_differs:" + tag, {"A": _short(a) if isinstance(a, dict) else a, "B": _short(b) if isinstance(b, dict) else b,
                                               "backend": twin["backend"], "twin_labels": twin["labels"]})
        if bad is None:
            continue
        sig = f"{PROP}:{bad[0]}"
        if data_op and "A" in answers and isinstance(namesB.labels[0], int):
            # explained-by predicate for the known finding "integer column names": the same twin with the integers
            # spelled as strings must agree with side A
            try:
                w3 = copy.deepcopy(w2)
                w3["labels"] = ["n%d" % x if x >= 0 else "m%d" % -x for x in w2["labels"]]
                names3 = Names(w3)
                seams.set_backend("numpy")
                m3 = build_bn(w3, twin["config"], names3)
                evs = {v: inv[v][s] for v, s in ev.items()}
                c3 = _twin_answer(k, op, w3, names3, m3, q, evs, rowsB, "B", unperm)
                if same_answer(answers["A"], c3):
                    sig = f"{PROP}:twin_int_column_names:{k}"
            except Exception:
                pass
            finally:
                seams.set_backend("numpy")
        ctx.fail("twin", sig, bad[1])


def _twin_answer(k, op, world, names, model, q, ev, rows, side, unperm):
    from pgmpy.inference import BeliefPropagation, VariableElimination

    L = names.L
    n = world["n"]
    opt = op.get("opt", 0)

    def fix(lv, arr):
        return unperm(arr, lv) if unperm else arr

    if k in ("ve_query", "bp_query"):
        Eng = VariableElimination if k == "ve_query" else BeliefPropagation
        kw = {}
        if k == "ve_query":
            o = op.get("order")
            kw["elimination_order"] = [L(v) for v in o[1]] if isinstance(o, list) else o
        res = Eng(model).query([L(v) for v in q], evidence=names.ev(ev) or None, show_progress=False, **kw)
        lv, arr = factor_to_logical(res, names, expect_vars=q)
        return {"post": fix(lv, arr)}
    if k == "map_value":
        res = VariableElimination(model).map_query([L(v) for v in q], evidence=names.ev(ev) or None, show_progress=False)
        rj = RefJoint.from_bn(world)
        post = rj.posterior(q, ev)
        p = _assignment_prob(post, q, res, names)
        return {"p": np.asarray([p if p is not None else -1.0])}
    if k in ("score", "mle", "bayes_est"):
        df = make_frame(world, names, rows)
        sn = {L(v): list(names.states[v]) for v in range(n)}
        if k == "score":
            from pgmpy.estimators import AICScore, BDeuScore, BDsScore, BicScore, K2Score

            Sc = [K2Score, BDeuScore, BDsScore, BicScore, AICScore][opt % 5]
            return {"score": np.asarray([float(Sc(df, state_names=sn).score(model))])}
        from pgmpy.estimators import BayesianEstimator, MaximumLikelihoodEstimator

        if k == "mle":
            cpds = MaximumLikelihoodEstimator(model, df, state_names=sn).get_parameters()
        else:
            cpds = BayesianEstimator(model, df, state_names=sn).get_parameters(prior_type="BDeu", equivalent_sample_size=4)
        out = {}
        for c in cpds:
            lv, arr = factor_to_logical(c.to_factor(), names)
            out[str(lv) + ":" + str(names.lab2idx[c.variable])] = fix(lv, arr)
        return out
    if k == "partition":
        mn = model.to_markov_model()
        return {"Z": np.asarray([float(to_np(mn.get_partition_function()))])}
    if k == "factor_ops":
        # product / marginal / division of the CPD factors of two variables
        v = q[0]
        f = model.get_cpds(L(v)).to_factor()
        g = model.get_cpds(L((v + 1) % n)).to_factor()
        h = f * g
        others = [L(u) for u in sorted(names.lab2idx[x] for x in h.variables) if u != v]
        m = h.marginalize(others[: opt % (len(others) + 1)], inplace=False) if others else h
        d = m / (m.marginalize([x for x in m.variables if x != L(v)], inplace=False) if len(m.variables) > 1 else m)
        lv, arr = factor_to_logical(d, names)
        return {"f": fix(lv, arr)}
    return None


# ---- minimisation passes -------------------------------------------------------------------------
def shrink_candidates(case):
    for c in c01.shrink_candidates({"world": case["world"], "config": case["config"], "ops": []}):
        if case["mode"] == "twin" and (c["world"]["labels"] != case["world"]["labels"] or c["world"]["states"] != case["world"]["states"]):
            continue
        if len(c["world"]["parents"]) != len(case["world"]["parents"]):
            continue
        if case["mode"] != "history" and c["world"]["parents"] != case["world"]["parents"]:
            continue  # rows / conversions depend on the structure
        if case.get("engine") == "BP" and not W.is_connected_bn(c["world"]):
            continue
        out = copy.deepcopy(case)
        out["world"], out["config"] = c["world"], c["config"]
        yield out
    if case["mode"] == "twin":
        tw = case["twin"]
        if tw["backend"] != "numpy":
            out = copy.deepcopy(case)
            out["twin"]["backend"] = "numpy"
            yield out
        ident = [list(range(c)) for c in case["world"]["card"]]
        if tw["perms"] != ident:
            out = copy.deepcopy(case)
            out["twin"]["perms"] = ident
            yield out
        if tw["labels"] != case["world"]["labels"]:
            out = copy.deepcopy(case)
            out["twin"]["labels"] = list(case["world"]["labels"])
            yield out
        if tw["states"] != case["world"]["states"] and tw["perms"] == ident:
            out = copy.deepcopy(case)
            out["twin"]["states"] = copy.deepcopy(case["world"]["states"])
            yield out
    if case.get("rows") and len(case["rows"]) > 4:
        out = copy.deepcopy(case)
        out["rows"] = case["rows"][: len(case["rows"]) // 2]
        yield out
