"""C14 - model conversions preserve the distribution and produce valid targets.

Triangulation order, clique enumeration, spanning tree and factor bookkeeping follow hash order
(labels x PYTHONHASHSEED x insertion order); knobs: heuristic H1..H6, explicit elimination order."""
import copy
import itertools

import numpy as np

from .. import world as W
from ..core import exc_brief, exc_site
from ..prng import shuffled, weighted
from ..realise import Mismatch, Names, build_bn, factor_to_logical, make_factor, to_np
from ..refmodel import RefJoint, close, is_chordal, maxdiff
from . import c01, c02

PROP = "C14"


def generate(streams, tier):
    big = tier == "thorough"
    r = streams.s("kind")
    kind = weighted(r, [("bn", 4), ("mn", 5), ("fg", 2)])
    connected = r.random() < 0.7
    if kind == "bn":
        world = W.gen_bn(streams, max_n=7 if big else 6, max_joint=16384 if big else 2048, connected=connected, max_parents=3)
        rm = streams.s("mixed_labels")
        if rm.random() < 0.12:
            # names of several types in one network (a year, a string, a pair): hashable, but not mutually orderable
            pool = [2020, 7, 0, "region", "sales", "q", ["sales", 1], ["t", 0], 3.5]
            world["labels"] = rm.sample(pool, world["n"])
            world["flags"]["label_mode"] = "mixedtype"
        config = {"bn": W.gen_bn_config(streams, world)}
    else:
        world = W.gen_mn(streams, max_n=7 if big else 6, min_n=2, max_joint=16384 if big else 2048, connected=connected,
                         dup_rate=(r.choice([0.0, 0.3, 0.6]) if kind == "mn" else 0.0), scale_rate=0.25, hub_rate=0.25)
        ri = streams.s("insertion")
        config = {"factor_order": shuffled(ri, range(len(world["factors"]))), "edge_order": shuffled(ri, world["edges"]),
                  "node_order": shuffled(ri, range(world["n"]))}
    rw = streams.s("workload")
    menu = {"bn": ["to_markov_model", "bn_to_junction_tree"],
            "mn": ["to_factor_graph", "triangulate", "triangulate", "mn_to_junction_tree", "mn_to_junction_tree", "partition"],
            "fg": ["fg_to_markov_model", "fg_to_junction_tree", "fg_partition"]}[kind]
    ops = []
    for _ in range(rw.randint(1, 4)):
        name = rw.choice(menu)
        op = {"op": name}
        if name == "triangulate":
            op["heuristic"] = rw.choice(["H1", "H2", "H3", "H4", "H5", "H6"])
            op["order"] = shuffled(rw, range(world["n"])) if rw.random() < 0.3 else None
            op["inplace"] = rw.random() < 0.3
        ops.append(op)
    if kind == "mn" and not connected and rw.random() < 0.5:
        # a disconnected network (possibly with vertices that have no edge at all) handed to the copying form of triangulate
        ops.append({"op": "triangulate", "heuristic": rw.choice(["H1", "H2", "H3", "H4", "H5", "H6"]), "order": None, "inplace": False})
    # one source object for the whole history (conversions must leave their source as it was) or a fresh one per operation
    return {"kind": kind, "world": world, "config": config, "ops": ops, "shared_model": rw.random() < 0.5}


def describe(case):
    w = case["world"]
    return {"kind": case["kind"], "n": w["n"], "card": w["card"], "labels": w["labels"],
            "factor_scopes": [f["scope"] for f in c02.world_factors(w)], "ops": case["ops"]}


def joint_of(factors, names, card):
    """Product of pgmpy factors as an array over all logical variables (raises Mismatch on bad labels)."""
    n = len(card)
    arr = np.ones(tuple(card), dtype=float)
    for phi in factors:
        lv, a = factor_to_logical(phi, names)
        shape = [card[v] if v in lv else 1 for v in range(n)]
        arr = arr * a.reshape(shape)
    return arr


def _connected(world):
    return W.is_connected_bn(world) if world["kind"] == "bn" else W.mn_connected(world)


def execute(case, ctx):
    import networkx as nx
    from pgmpy.models import FactorGraph, MarkovNetwork

    world, kind = case["world"], case["kind"]
    names = Names(world)
    card = world["card"]
    n = world["n"]
    facs = c02.world_factors(world)
    ref = RefJoint.from_factors(card, facs)
    z = ref.partition()
    edges0 = {frozenset(e) for e in c02.world_edges(world)}
    connected = _connected(world)
    ctx.fault("relabel")
    ctx.fault("insertion_permute")
    ctx.sig_order("labels", [names.lab2idx[x] for x in set(names.labels)])
    if len({(tuple(f["scope"]), tuple(f["values"])) for f in facs}) < len(facs):
        ctx.probe("equal_factors_present")
    if any(len(f["scope"]) == 1 for f in facs):
        ctx.probe("unary_factor_present")

    def build():
        cc = {"world": world, "config": dict(case["config"], kind=kind)}
        return c02.build_model(cc, names)

    def L2(x):
        return names.lab2idx[x]

    for i, op in enumerate(case["ops"]):
        ctx.step_no = i
        ctx.steps += 1
        name = op["op"]
        shared = bool(case.get("shared_model")) and kind in ("mn", "fg")
        if shared:
            if i == 0:
                shared_model = build()
                ctx.fault("object_history")
            model = shared_model
            if name == "triangulate" and op.get("inplace"):
                op = dict(op, inplace=False)
        else:
            model = build()
        ctx.event(name, {k: v for k, v in op.items() if k != "op"})
        try:
            if name == "to_markov_model":
                mn = model.to_markov_model()
                ctx.checked += 1
                got_edges = {frozenset((L2(a), L2(b))) for a, b in mn.edges()}
                if got_edges != edges0 or sorted(L2(x) for x in mn.nodes()) != list(range(n)):
                    ctx.fail("moral_graph", f"{PROP}:moral_graph", {"got": sorted(map(sorted, got_edges)), "want": sorted(map(sorted, edges0))})
                _check_joint(ctx, names, card, ref, mn.factors, name)
            elif name in ("bn_to_junction_tree", "mn_to_junction_tree", "fg_to_junction_tree"):
                if not connected:
                    # the library refuses disconnected clique trees by design; nothing to check
                    try:
                        model.to_junction_tree()
                        ctx.probe("disconnected_tree_accepted")
                    except Exception:
                        ctx.probe("disconnected_tree_refused")
                    continue
                jt = model.to_junction_tree()
                ctx.checked += 1
                _check_joint(ctx, names, card, ref, jt.factors, name)
                _check_tree(ctx, names, n, facs, edges0, jt, name)
            elif name == "to_factor_graph":
                fg = model.to_factor_graph()
                ctx.checked += 1
                _check_joint(ctx, names, card, ref, fg.factors, name)
                if len(fg.factors) != len(facs):
                    ctx.fail("factors_once", f"{PROP}:factor_count:{name}", {"got": len(fg.factors), "want": len(facs)})
                try:
                    fg.check_model()
                    zz = float(to_np(fg.get_partition_function()))
                    if not close(zz, z, rtol=1e-7, atol=1e-9 * max(z, 1)):
                        ctx.fail("partition", f"{PROP}:partition:{name}", {"got": zz, "want": z})
                except Exception as e:
                    ctx.fail("valid_target", f"{PROP}:invalid_target:{name}:{type(e).__name__}:{exc_site(e)}", exc_brief(e))
            elif name == "triangulate":
                order = [names.L(v) for v in op["order"] if v < n] if op.get("order") else None
                res = model.triangulate(heuristic=op["heuristic"], order=order, inplace=op.get("inplace", False))
                ctx.checked += 1
                ctx.fault("option_swarm")
                g = model if op.get("inplace") else res
                got_edges = {frozenset((L2(a), L2(b))) for a, b in g.edges()}
                if not edges0 <= got_edges:
                    ctx.fail("chordal_supergraph", f"{PROP}:triangulate_lost_edge", {"missing": sorted(map(sorted, edges0 - got_edges))})
                got_nodes = {L2(x) for x in g.nodes()}
                if not set(range(n)) <= got_nodes:
                    # a supergraph has every vertex of the graph, also those without an edge
                    ctx.fail("chordal_supergraph", f"{PROP}:triangulate_lost_node", {"missing": sorted(set(range(n)) - got_nodes), "inplace": bool(op.get("inplace"))})
                if not is_chordal(sorted(got_nodes), got_edges):
                    ctx.fail("chordal_supergraph", f"{PROP}:not_chordal", {"heuristic": op["heuristic"], "order": op.get("order"), "edges": sorted(map(sorted, got_edges))})
                if got_edges != edges0:
                    ctx.probe("fill_in_added")
            elif name in ("partition", "fg_partition"):
                zz = float(to_np(model.get_partition_function()))
                ctx.checked += 1
                if not close(zz, z, rtol=1e-7, atol=1e-9 * max(z, 1)):
                    ctx.fail("partition", f"{PROP}:partition:{name}", {"got": zz, "want": z})
            elif name == "fg_to_markov_model":
                mn = model.to_markov_model()
                ctx.checked += 1
                got_edges = {frozenset((L2(a), L2(b))) for a, b in mn.edges()}
                want_edges = {frozenset(p) for f in facs for p in itertools.combinations(f["scope"], 2)}
                if got_edges != want_edges:
                    ctx.fail("moral_graph", f"{PROP}:fg_graph", {"got": sorted(map(sorted, got_edges)), "want": sorted(map(sorted, want_edges))})
                _check_joint(ctx, names, card, ref, mn.factors, name)
            if shared:
                # the source still holds every original factor exactly once
                src = list(model.get_factors())
                if len(src) != len(facs):
                    ctx.fail("source_intact", f"{PROP}:source_factor_count:{name}", {"got": len(src), "want": len(facs)})
                else:
                    arr = joint_of(src, names, card)
                    scale = max(float(np.abs(ref.arr).max()), 1e-300)
                    if not close(arr / scale, ref.arr / scale, atol=1e-9, rtol=1e-7):
                        ctx.fail("source_intact", f"{PROP}:source_changed:{name}", {"Z_got": float(arr.sum()), "Z_want": float(ref.arr.sum())})
                        return
        except Mismatch as e:
            ctx.fail("labels", f"{PROP}:labels:{name}", str(e))
        except Exception as e:
            ctx.fail("succeeds", f"{PROP}:raise:{name}:{type(e).__name__}:{exc_site(e)}", exc_brief(e))


def _check_joint(ctx, names, card, ref, factors, what):
    arr = joint_of(factors, names, card)
    want = ref.arr
    scale = max(float(np.abs(want).max()), 1e-300)
    if not close(arr / scale, want / scale, atol=1e-9, rtol=1e-7):
        za, zw = float(arr.sum()), float(want.sum())
        sig = f"{PROP}:joint:{what}"
        ctx.fail("joint_preserved", sig, {"Z_got": za, "Z_want": zw, "maxdiff_rel": maxdiff(arr / scale, want / scale), "n_factors": len(factors)})


def _check_tree(ctx, names, n, facs, edges0, jt, what):
    import networkx as nx

    cliques = [frozenset(names.lab2idx[x] for x in c) for c in jt.nodes()]
    idx = {c: i for i, c in enumerate(jt.nodes())}
    tedges = [(idx[a], idx[b]) for a, b in jt.edges()]
    k = len(cliques)
    # connected tree
    g = nx.Graph()
    g.add_nodes_from(range(k))
    g.add_edges_from(tedges)
    if k and (not nx.is_connected(g) or g.number_of_edges() != k - 1):
        ctx.fail("clique_tree", f"{PROP}:not_a_tree:{what}", {"cliques": [sorted(c) for c in cliques], "edges": tedges})
        return
    # every factor scope inside a clique; every variable covered
    for f in facs:
        if not any(set(f["scope"]) <= c for c in cliques):
            ctx.fail("clique_tree", f"{PROP}:scope_not_covered:{what}", {"scope": f["scope"], "cliques": [sorted(c) for c in cliques]})
            return
    # running intersection: for every variable the cliques containing it induce a connected subtree
    for v in range(n):
        holders = [i for i, c in enumerate(cliques) if v in c]
        if not holders:
            ctx.fail("clique_tree", f"{PROP}:variable_missing:{what}", {"var": v})
            return
        if not nx.is_connected(g.subgraph(holders)):
            ctx.fail("clique_tree", f"{PROP}:running_intersection:{what}", {"var": v, "cliques": [sorted(c) for c in cliques], "edges": tedges})
            return
    # one potential per clique
    scopes = sorted(sorted(names.lab2idx[x] for x in phi.variables) for phi in jt.factors)
    if scopes != sorted(sorted(c) for c in cliques):
        ctx.fail("clique_tree", f"{PROP}:potentials_vs_cliques:{what}", {"potentials": scopes, "cliques": sorted(sorted(c) for c in cliques)})


def shrink_candidates(case):
    w = case["world"]
    n = w["n"]
    if case["kind"] == "bn":
        for c in c01.shrink_candidates({"world": w, "config": case["config"]["bn"], "ops": []}):
            out = copy.deepcopy(case)
            out["world"] = c["world"]
            out["config"]["bn"] = c["config"]
            yield out
        return
    if any(not (isinstance(l, str) and l == f"v{i}") for i, l in enumerate(w["labels"])):
        c = copy.deepcopy(case)
        c["world"]["labels"] = [f"v{i}" for i in range(n)]
        yield c
    if any(s is not None for s in w["states"]):
        c = copy.deepcopy(case)
        c["world"]["states"] = [None] * n
        yield c
    # drop a factor (keep every variable covered)
    for i in range(len(w["factors"])):
        rest = [f for j, f in enumerate(w["factors"]) if j != i]
        if all(any(v in f["scope"] for f in rest) for v in range(n)):
            c = copy.deepcopy(case)
            del c["world"]["factors"][i]
            c["config"]["factor_order"] = [j if j < i else j - 1 for j in c["config"]["factor_order"] if j != i]
            yield c
    for i, op in enumerate(case["ops"]):
        if op.get("order"):
            c = copy.deepcopy(case)
            c["ops"][i]["order"] = None
            yield c
