"""C03 - MAP queries return a maximiser of the exact posterior.

VariableElimination.map_query (all elimination-order options; Bayesian and Markov networks),
BeliefPropagation.map_query, BayesianNetwork.predict under the SimParallel worker stub."""
import copy

import numpy as np

from .. import seams, world as W
from ..core import exc_brief, exc_site
from ..prng import shuffled, weighted
from ..realise import Names, build_bn, build_mn
from ..refmodel import RefJoint, close, int_evidence
from . import c01, c02

PROP = "C03"
TOL = 1e-9


def generate(streams, tier):
    big = tier == "thorough"
    r = streams.s("kind")
    kind = weighted(r, [("bn", 6), ("mn", 4)])
    if kind == "bn":
        world = W.gen_bn(streams, max_n=7 if big else 6, max_joint=16384 if big else 2048, connected=r.random() < 0.6)
        config = W.gen_bn_config(streams, world)
        ref = RefJoint.from_bn(world)
    else:
        world = W.gen_mn(streams, max_n=8, min_n=1, max_joint=2048, connected=True, dup_rate=r.choice([0.0, 0.0, 0.4]), scale_rate=0.2, hub_rate=0.15, ring_rate=0.5, coupling="strong")
        config = {"factor_order": shuffled(streams.s("insertion"), range(len(world["factors"]))), "edge_order": shuffled(streams.s("insertion"), world["edges"])}
        ref = RefJoint.from_factors(world["card"], world["factors"])
    rw = streams.s("workload")
    str_labels = isinstance(world["labels"][0], str)
    connected = W.is_connected_bn(world) if kind == "bn" else True
    ops = []
    for _ in range(rw.randint(2, 7)):
        k = weighted(rw, [("ve_map", 6), ("bp_map", 3 if connected else 0), ("predict", 2 if kind == "bn" and world["n"] >= 2 else 0)])
        if k == "predict":
            n = world["n"]
            cols = rw.sample(range(n), rw.randint(1, n - 1))
            rows = []
            for _ in range(rw.randint(1, 8)):
                ev = {}
                for v in cols:
                    for s in shuffled(rw, range(world["card"][v])):
                        t = dict(ev)
                        t[v] = s
                        if ref.prob_evidence(t) > 1e-12:
                            ev = t
                            break
                if len(ev) == len(cols):
                    rows.append([ev[v] for v in cols])
            if rows:
                ops.append({"op": "predict", "cols": cols, "rows": rows, "n_jobs": rw.choice([1, 2, -1]), "algo": rw.choice(["VE", "VE", "BP"]) if connected else "VE",
                            "jobseed": rw.randrange(2**31)})
            continue
        q = c02.gen_query(rw, world, ref, allow_virtual=(kind == "bn" and (str_labels or rw.random() < 0.2)))
        q["op"] = k
        if k == "bp_map":
            q["pre"] = rw.choice([None, None, "max_calibrate", "calibrate"])
        okind = weighted(rw, [("default", 2), ("heur", 3), ("explicit", 3), ("none", 3)])
        if okind == "heur":
            q["order"] = rw.choice(c01.HEURISTICS)
        elif okind == "explicit":
            q["order"] = ["perm", shuffled(rw, [v for v in range(world["n"]) if v not in q["q"] and str(v) not in q["ev"]])]
        elif okind == "none":
            q["order"] = None
        else:
            q["order"] = "default"
        ops.append(q)
    # one engine object for the whole history (a user keeps the engine and calibrates it between questions) or a fresh one per question
    return {"kind": kind, "world": world, "config": config, "ops": ops, "shared_engines": rw.random() < 0.5,
            "backend": streams.s("config").choice(seams.BACKENDS)}


def describe(case):
    w = case["world"]
    return {"kind": case["kind"], "n": w["n"], "card": w["card"], "labels": w["labels"], "ops": case["ops"][:4]}


def execute(case, ctx):
    import pandas as pd
    from pgmpy.inference import BeliefPropagation, VariableElimination

    world, kind = case["world"], case["kind"]
    names = Names(world)
    if kind == "bn":
        ref = RefJoint.from_bn(world)
        build = lambda: build_bn(world, case["config"], names)
    else:
        ref = RefJoint.from_factors(world["card"], world["factors"])
        build = lambda: build_mn(world, names, factor_order=case["config"]["factor_order"], edge_order=case["config"]["edge_order"])
    z = ref.partition()
    vals = [[x for row in t for x in row] for t in world["tables"]] if kind == "bn" else [list(f["values"]) for f in world["factors"]]
    backend = seams.effective_backend(case.get("backend", "numpy"), vals)
    seams.set_backend(backend)
    if backend == "torch":
        from ..refmodel import set_torch_rounding

        set_torch_rounding(True)  # values pass through float32 at every factor construction (known finding of C01)
    ctx.backend = backend
    if backend != "numpy":
        ctx.fault("backend_config")
    single = backend.endswith("float32")
    if single:
        ctx.probe("dtype_float32")
    model = build()
    ctx.fault("relabel")
    ctx.fault("insertion_permute")
    ctx.sig_order("labels", [names.lab2idx[x] for x in set(names.labels)])
    engines = {}

    def engine(cls):
        if not case.get("shared_engines"):
            return cls(model)
        if cls not in engines:
            engines[cls] = cls(model)
            ctx.fault("engine_reuse")
        return engines[cls]

    for i, op in enumerate(case["ops"]):
        ctx.step_no = i
        ctx.steps += 1
        k = op["op"]
        if k == "predict":
            _predict(case, ctx, op, model, names, ref)
            continue
        q = [v for v in op["q"] if v < world["n"]]
        ev = {v: s for v, s in int_evidence(op["ev"]).items() if v < world["n"] and s < world["card"][v] and v not in q}
        virt = [(int(v), list(l)) for v, l in op.get("virt", []) if int(v) < world["n"] and len(l) == world["card"][int(v)] and int(v) not in ev]
        if kind != "bn":
            virt = []
        if not q or ref.prob_evidence(ev, virt) <= 1e-12 * max(z, 1e-300):
            continue
        if single and (ref.prob_evidence(ev, virt) < 1e-5 * z or any(0 < x < 1e-3 for _, l in virt for x in l)):
            continue
        ctx.event(k, q, sorted(ev.items()), virt, op.get("order") if not isinstance(op.get("order"), list) else "explicit")
        ctx.fault("option_swarm")
        kw = {}
        if virt:
            kw["virtual_evidence"] = c01.make_virtual(world, names, virt)
            ctx.fault("virtual_evidence_rebind")
        try:
            if k == "ve_map":
                o = op.get("order", "default")
                if o != "default":
                    kw["elimination_order"] = [names.L(v) for v in o[1] if v < world["n"]] if isinstance(o, list) else o
                ctx.probe("order_" + ("explicit" if isinstance(o, list) else str(o).lower()))
                res = engine(VariableElimination).map_query([names.L(v) for v in q], evidence=names.ev(ev) or None, show_progress=False, **kw)
            else:
                bp = engine(BeliefPropagation)
                if op.get("pre"):
                    getattr(bp, op["pre"])()
                    ctx.probe("map_after_" + op["pre"])
                res = bp.map_query([names.L(v) for v in q], evidence=names.ev(ev) or None, show_progress=False, **kw)
        except Exception as e:
            ctx.fail("succeeds", f"{PROP}:raise:{k}:{type(e).__name__}:{exc_site(e)}", {"exc": exc_brief(e), "kind": kind})
            continue
        ctx.checked += 1
        check_assignment(ctx, names, world, ref, res, q, ev, virt, k)


def check_assignment(ctx, names, world, ref, res, q, ev, virt, what, row=None):
    if not isinstance(res, dict):
        ctx.fail("keys", f"{PROP}:keys:{what}", f"returned {type(res).__name__}")
        return False
    try:
        keys = sorted(names.lab2idx[k] for k in res)
    except (KeyError, TypeError):
        ctx.fail("keys", f"{PROP}:keys:{what}", {"got": [repr(k) for k in res], "want": sorted(q)})
        return False
    if keys != sorted(q):
        ctx.fail("keys", f"{PROP}:keys:{what}", {"got": keys, "want": sorted(q)})
        return False
    idx = []
    for v in q:
        val = res[names.L(v)]
        try:
            idx.append(names.state_index(v, val if not hasattr(val, "item") else val.item()))
        except KeyError:
            ctx.fail("state_name", f"{PROP}:state_name:{what}", {"var": v, "value": repr(val), "states": [repr(s) for s in names.states[v]]})
            return False
    post = ref.posterior(q, ev, virt)
    p = float(post[tuple(idx)])
    best = float(post.max())
    from ..refmodel import is_single, is_torch_rounding

    if p < best - TOL - (2e-3 if is_single() else (1e-5 if is_torch_rounding() else 1e-7)) * best:
        ctx.fail("maximiser", f"{PROP}:not_max:{what}", {"returned": idx, "p": p, "max": best, "argmax": [int(x) for x in np.unravel_index(int(post.argmax()), post.shape)],
                                                         "q": q, "ev": sorted(ev.items()), "row": row})
        return False
    if np.sum(np.isclose(post, best, rtol=1e-9, atol=1e-12)) > 1:
        ctx.probe("tie_in_posterior")
    return True


def _predict(case, ctx, op, model, names, ref):
    import pandas as pd
    import random
    from pgmpy.inference import BeliefPropagation, VariableElimination

    world = case["world"]
    cols = [v for v in op["cols"] if v < world["n"]]
    missing = [v for v in range(world["n"]) if v not in cols]
    rows = [r for r in op["rows"] if len(r) == len(op["cols"]) and all(s < world["card"][v] for v, s in zip(op["cols"], r))]
    rows = [[s for v, s in zip(op["cols"], r) if v < world["n"]] for r in rows]
    rows = [r for r in rows if ref.prob_evidence(dict(zip(cols, r))) > 1e-12]
    if not cols or not missing or not rows:
        return
    if any(names.S(v, s_) is None for v in range(world["n"]) for s_ in range(world["card"][v])):
        # a state named None cannot be told from a missing cell inside a pandas frame: outside the property
        ctx.probe("predict_skipped_none_state_in_frame")
        return
    data = {}
    for j, v in enumerate(cols):
        vals = [names.S(v, r[j]) for r in rows]
        data[names.L(v)] = pd.Series(vals, dtype=object)
    df = pd.DataFrame(data, columns=[names.L(v) for v in cols])
    fac = seams.install_parallel(random.Random(op["jobseed"]), ctx)
    algo = VariableElimination if op["algo"] == "VE" else BeliefPropagation
    ctx.event("predict", cols, rows, op["n_jobs"], op["algo"])
    try:
        out = model.predict(df, algo=algo, n_jobs=op["n_jobs"])
    except Exception as e:
        ctx.fail("succeeds", f"{PROP}:raise:predict:{type(e).__name__}:{exc_site(e)}", {"exc": exc_brief(e), "algo": op["algo"], "n_jobs": op["n_jobs"]})
        return
    finally:
        seams.reset_environment()
        seams.set_backend(getattr(ctx, "backend", "numpy"))
        if getattr(ctx, "backend", "numpy") == "torch":
            from ..refmodel import set_torch_rounding

            set_torch_rounding(True)
    ctx.checked += 1
    if len(out) != len(rows):
        ctx.fail("keys", f"{PROP}:predict_rows", {"got": len(out), "want": len(rows)})
        return
    for ri, r in enumerate(rows):
        ev = dict(zip(cols, r))
        try:
            res = {c: out[c].iloc[ri] for c in out.columns}
        except Exception as e:
            ctx.fail("keys", f"{PROP}:keys:predict", exc_brief(e))
            return
        if not check_assignment(ctx, names, world, ref, res, missing, ev, [], "predict", row=ri):
            return


def shrink_candidates(case):
    w = case["world"]
    if case["kind"] == "bn":
        for c in c01.shrink_candidates({"world": w, "config": case["config"], "ops": []}):
            out = copy.deepcopy(case)
            out["world"], out["config"] = c["world"], c["config"]
            if any(o["op"] == "bp_map" or (o["op"] == "predict" and o.get("algo") == "BP") for o in case["ops"]) and not W.is_connected_bn(c["world"]):
                continue
            yield out
    else:
        n = w["n"]
        if any(not (isinstance(l, str) and l == f"v{i}") for i, l in enumerate(w["labels"])):
            c = copy.deepcopy(case)
            c["world"]["labels"] = [f"v{i}" for i in range(n)]
            yield c
        if any(s is not None for s in w["states"]):
            c = copy.deepcopy(case)
            c["world"]["states"] = [None] * n
            yield c
    if case.get("backend", "numpy") != "numpy":
        c = copy.deepcopy(case)
        c["backend"] = "numpy"
        yield c
    if case.get("shared_engines"):
        c = copy.deepcopy(case)
        c["shared_engines"] = False
        yield c
    for i, op in enumerate(case["ops"]):
        if op["op"] in ("ve_map", "bp_map"):
            if op.get("pre"):
                c = copy.deepcopy(case)
                c["ops"][i]["pre"] = None
                yield c
            if op.get("virt"):
                c = copy.deepcopy(case)
                c["ops"][i]["virt"] = []
                yield c
            for k in list(op["ev"]):
                c = copy.deepcopy(case)
                del c["ops"][i]["ev"][k]
                if isinstance(c["ops"][i].get("order"), list):
                    c["ops"][i]["order"][1].append(int(k))
                yield c
            if len(op["q"]) > 1:
                for v in op["q"]:
                    c = copy.deepcopy(case)
                    c["ops"][i]["q"].remove(v)
                    if isinstance(c["ops"][i].get("order"), list):
                        c["ops"][i]["order"][1].append(v)
                    yield c
        elif op["op"] == "predict":
            if len(op["rows"]) > 1:
                for j in range(len(op["rows"])):
                    c = copy.deepcopy(case)
                    del c["ops"][i]["rows"][j]
                    yield c
            if op["n_jobs"] != 1:
                c = copy.deepcopy(case)
                c["ops"][i]["n_jobs"] = 1
                yield c
