"""C11 - score-based structure search honours its contract.

Simulated: hill climbing breaks score ties by the iteration order of a set of candidate edges (labels x
PYTHONHASHSEED explore different climbs from the same data); the score cache with a capacity knob; TreeSearch
weights under the SimParallel stub; one TreeSearch object reused for several estimate() calls; option swarm.
Oracle: reference scorer (closed forms from counts) + exhaustive enumeration of legal moves / DAGs / spanning trees."""
import copy
import itertools
import math
import random

import numpy as np

from .. import seams, world as W
from ..core import exc_brief, exc_site
from ..prng import shuffled, weighted
from ..realise import Names, make_frame
from ..refmodel import close, is_acyclic
from . import c10
from .c06 import project_world

PROP = "C11"


def generate(streams, tier):
    r = streams.s("kind")
    big = tier == "thorough"
    wide = r.random() < 0.35
    world = W.gen_bn(streams, max_n=(6 if wide else 5) if big else (6 if wide else 4), min_n=4 if wide else 2, max_card=3, max_parents=3 if wide else 2, max_joint=729, force_str_labels="or_int", allow_card1=False,
                     state_modes=[("str", 3), ("int_sorted", 2)])
    n = world["n"]
    rd = streams.s("data")
    rows = W.gen_rows(rd, world, rd.choice([60, 120, 200, 300, 300]) if wide else rd.choice([8, 15, 30, 60, 120]), sharpen=rd.random() < (0.6 if wide else 0.4))
    rw = streams.s("workload")
    ops = []
    for _ in range(rw.randint(1, 3)):
        k = weighted(rw, [("hill", 6), ("exhaustive", 1 if n <= 4 else 0), ("tree", 3)])
        if k == "hill":
            pairs = [(a, b) for a in range(n) for b in range(n) if a != b]
            start = c10._rand_dag(rw, n) if rw.random() < 0.65 else []
            fixed = []
            if rw.random() < 0.3:
                cand = shuffled(rw, pairs)[:2]
                for e in cand:
                    if is_acyclic(n, [tuple(x) for x in start] + [tuple(x) for x in fixed] + [e]) and [e[1], e[0]] not in start:
                        fixed.append(list(e))
            black = [list(e) for e in shuffled(rw, pairs)[: rw.randint(1, 4)]] if rw.random() < 0.3 else None
            white = [list(e) for e in shuffled(rw, pairs)[: rw.randint(2, len(pairs))]] if rw.random() < 0.3 else None
            ops.append({"op": "hill", "score": rw.choice(["k2", "bdeu", "bic", "aic", "bds"]), "as_instance": rw.random() < 0.5, "start": start, "fixed": fixed,
                        "black": black, "white": white, "max_indegree": rw.choice([None, 1, 1, 2]), "tabu": rw.choice([0, 0, 0, 3, 100]),
                        "epsilon": rw.choice([1e-4, 1e-4, 0.5, 1e-9]), "max_iter": rw.choice([1000000, 1000000, 1, 2, 5]), "use_cache": rw.random() < 0.7,
                        "cache_size": rw.choice([1, 3, 10000])})
            if rw.random() < 0.2:
                # a caller-written, integer-valued score (rows explained by the best state per parent configuration, minus two per
                # parent) with an integer epsilon: improvements of exactly epsilon occur, the boundary the contract names
                ops[-1].update({"score": "count", "as_instance": True, "epsilon": rw.choice([1, 1, 2, 3]), "tabu": 0, "max_iter": 1000000})
            if wide and rw.random() < 0.4:
                # a long unconstrained climb from the empty graph with the tabu list disabled: moves made early have to be undone later
                ops[-1].update({"start": [], "fixed": [], "black": None, "white": None, "max_indegree": None, "tabu": 0, "epsilon": 1e-4, "max_iter": 1000000})
        elif k == "exhaustive":
            ops.append({"op": "exhaustive", "score": rw.choice(["k2", "bdeu", "bic", "aic"]), "use_cache": rw.random() < 0.5})
        else:
            calls = []
            for _ in range(rw.randint(1, 3)):
                calls.append({"type": rw.choice(["chow-liu", "chow-liu", "tan"]), "weights": rw.choice(["mutual_info", "mutual_info", "normalized_mutual_info", "callable_sq", "callable_agree"]),
                              "class_node": rw.randrange(n)})
            ops.append({"op": "tree", "root": rw.randrange(n), "n_jobs": rw.choice([1, 2, -1]), "jobseed": rw.randrange(2**31), "calls": calls})
    if ops and all(o["op"] == "tree" for o in ops) and rw.random() < 0.5:
        # integer column labels (a frame built from an array has 0..n-1): only for the tree searches, the structure scores do not
        # support them (known finding of C16)
        world["labels"] = shuffled(rw, range(n)) if rw.random() < 0.7 else rw.sample([0, 1, 2, 3, 5, 7, 10, 20], n)
        world["flags"]["label_mode"] = "int"
    return {"world": world, "rows": rows, "ess": rw.choice([1, 5, 10]), "ops": ops}


def describe(case):
    w = case["world"]
    return {"n": w["n"], "card": w["card"], "labels": w["labels"], "rows": len(case["rows"]), "ops": case["ops"]}


class RefScorer:
    def __init__(self, kind, card, rows, ess):
        self.kind, self.card, self.rows, self.ess = kind, card, rows, ess
        self.memo = {}

    def local(self, v, parents):
        key = (v, tuple(sorted(parents)))
        if key not in self.memo and self.kind == "count":
            best = {}
            for r in self.rows:
                cfg = tuple(r[p] for p in sorted(parents))
                d = best.setdefault(cfg, {})
                d[r[v]] = d.get(r[v], 0) + 1
            self.memo[key] = float(sum(max(d.values()) for d in best.values()) - 2 * len(parents))
        if key not in self.memo:
            # BDs: the search contract is checked against the score as implemented (its deviation from the published
            # definition on unobserved parent configurations is C10's known finding, not a search defect)
            kind = "bds_as_implemented" if self.kind == "bds" else self.kind
            self.memo[key] = c10.ref_local(kind, self.card, self.rows, v, sorted(parents), self.ess)
        return self.memo[key]

    def prior_delta(self, operation):
        """log prior ratio of a move: BDs carries the marginal uniform structure prior (an arc costs log 2), the others none."""
        if self.kind != "bds":
            return 0.0
        return {"+": -math.log(2.0), "-": math.log(2.0)}.get(operation, 0.0)

    def score(self, n, edges):
        prior = -len(edges) * math.log(2.0) if self.kind == "bds" else 0.0
        return sum(self.local(v, [a for a, b in edges if b == v]) for v in range(n)) + prior


def all_dags(n):
    pairs = [(a, b) for a in range(n) for b in range(a + 1, n)]
    for choice in itertools.product([0, 1, 2], repeat=len(pairs)):
        es = []
        for (a, b), c in zip(pairs, choice):
            if c == 1:
                es.append((a, b))
            elif c == 2:
                es.append((b, a))
        if is_acyclic(n, es):
            yield es


def entropy(counts):
    tot = counts.sum()
    p = counts[counts > 0] / tot
    return float(-(p * np.log(p)).sum())


def mutual_info(card, rows, a, b):
    c = np.zeros((card[a], card[b]))
    for r in rows:
        c[r[a], r[b]] += 1
    tot = c.sum()
    if tot == 0:
        return 0.0
    pa, pb = c.sum(axis=1) / tot, c.sum(axis=0) / tot
    mi = 0.0
    for i in range(card[a]):
        for j in range(card[b]):
            if c[i, j] > 0:
                mi += c[i, j] / tot * math.log(c[i, j] / tot / (pa[i] * pb[j]))
    return max(mi, 0.0)


def weight_fn(kind, card, rows, a, b, states=None):
    if kind == "callable_agree":
        # a caller's weight that reads the VALUES of the two columns (share of rows in which they coincide), not just the partition
        return 0.05 + sum(1 for r in rows if states[a][r[a]] == states[b][r[b]]) / max(1, len(rows))
    mi = mutual_info(card, rows, a, b)
    if kind == "mutual_info":
        return mi
    if kind == "callable_sq":
        return mi * mi
    if kind == "normalized_mutual_info":
        ca = np.zeros(card[a])
        cb = np.zeros(card[b])
        for r in rows:
            ca[r[a]] += 1
            cb[r[b]] += 1
        ha, hb = entropy(ca), entropy(cb)
        den = (ha + hb) / 2.0
        return mi / den if den > 0 else 0.0
    raise ValueError(kind)


def max_spanning_weight(nodes, w):
    es = sorted(((w[a, b], a, b) for a in nodes for b in nodes if a < b), reverse=True)
    parent = {v: v for v in nodes}

    def find(x):
        while parent[x] != x:
            parent[x] = parent[parent[x]]
            x = parent[x]
        return x

    tot = 0.0
    for wt, a, b in es:
        ra, rb = find(a), find(b)
        if ra != rb:
            parent[ra] = rb
            tot += wt
    return tot


def _agree(u, v):
    return 0.05 + float(np.mean(np.asarray(u, dtype=object) == np.asarray(v, dtype=object)))


def _sq_mi(u, v):
    from sklearn.metrics import mutual_info_score

    m = mutual_info_score(u, v)
    return m * m


def execute(case, ctx):
    world0, rows0 = case["world"], case["rows"]
    ctx.fault("relabel")
    names0 = Names(world0)
    ctx.sig_order("labels", [names0.lab2idx[x] for x in set(names0.labels)])
    for i, op in enumerate(case["ops"]):
        ctx.step_no = i
        ctx.steps += 1
        try:
            if op["op"] == "hill":
                _hill(case, ctx, op)
            elif op["op"] == "exhaustive":
                _exhaustive(case, ctx, op)
            else:
                _tree(case, ctx, op)
        finally:
            seams.reset_environment()


def _count_score_class():
    from pgmpy.estimators import StructureScore

    class CountScore(StructureScore):
        """A user-written decomposable score with integer values (see generate)."""

        def local_score(self, variable, parents):
            parents = list(parents)
            best = {}
            cols = [self.data[p].tolist() for p in parents]
            child = self.data[variable].tolist()
            for i, c in enumerate(child):
                d = best.setdefault(tuple(col[i] for col in cols), {})
                d[c] = d.get(c, 0) + 1
            return float(sum(max(d.values()) for d in best.values()) - 2 * len(parents))

    return CountScore


def _pgmpy_scorer(kind, df, sn, ess):
    if kind == "count":
        return _count_score_class()(df, **({"state_names": sn} if sn else {}))
    return c10.scorer(kind, df, sn, ess)


def _hill(case, ctx, op):
    from pgmpy.base import DAG
    from pgmpy.estimators import HillClimbSearch
    import importlib

    SCmod = importlib.import_module("pgmpy.estimators.ScoreCache")
    import networkx as nx

    declared = op["as_instance"]
    world, rows, _ = project_world(case["world"], case["rows"], declared)
    names = Names(world)
    n = world["n"]
    card = world["card"]
    df = make_frame(world, names, rows)
    sn = {names.L(v): list(names.states[v]) for v in range(n)} if declared else None
    kind = op["score"]
    ess = 10 if not op["as_instance"] else case["ess"]  # the string form builds the scorer with its default ess
    ref = RefScorer(kind, card, rows, ess)
    L = names.L

    def E(es):
        return [(L(a), L(b)) for a, b in es]

    start_edges = [tuple(e) for e in op["start"] if e[0] < n and e[1] < n]
    if not is_acyclic(n, start_edges):
        return
    fixed = [tuple(e) for e in op["fixed"] if e[0] < n and e[1] < n]
    if not is_acyclic(n, list(set(start_edges) | set(fixed))) or any((b, a) in start_edges for a, b in fixed):
        return
    black = None if op["black"] is None else [tuple(e) for e in op["black"] if e[0] < n and e[1] < n]
    white = None if op["white"] is None else [tuple(e) for e in op["white"] if e[0] < n and e[1] < n]
    if black is not None and any(e in black for e in fixed):
        return
    start = DAG()
    start.add_nodes_from([L(v) for v in range(n)])
    start.add_edges_from(E(start_edges))
    scoring = _pgmpy_scorer(kind, df, sn, ess) if op["as_instance"] else kind
    ctx.event("hill", kind, op["as_instance"], start_edges, fixed, black, white, op["max_indegree"], op["tabu"], op["epsilon"], op["max_iter"], op["use_cache"])
    ctx.fault("option_swarm")
    if op["use_cache"] and op["cache_size"] < 10000:
        # capacity knob of the LRU cache the search builds internally
        OrigLRU = SCmod.LRUCache

        def small_lru(original_function, max_size=10000):
            return OrigLRU(original_function=original_function, max_size=op["cache_size"])

        seams._patch("pgmpy.estimators.ScoreCache", "LRUCache", small_lru)
        ctx.fault("cache_knob")
    try:
        hc = HillClimbSearch(df, use_cache=op["use_cache"])
        kw = {}
        if black is not None:
            kw["black_list"] = E(black)
        if white is not None:
            kw["white_list"] = E(white)
        res = hc.estimate(scoring_method=scoring, start_dag=start, fixed_edges=set(E(fixed)), tabu_length=op["tabu"], max_indegree=op["max_indegree"],
                          epsilon=op["epsilon"], max_iter=op["max_iter"], show_progress=False, **kw)
    except Exception as e:
        ctx.fail("succeeds", f"{PROP}:raise:hill:{type(e).__name__}:{exc_site(e)}", exc_brief(e))
        return
    ctx.checked += 1
    try:
        got_nodes = sorted(names.lab2idx[x] for x in res.nodes())
        edges = sorted((names.lab2idx[a], names.lab2idx[b]) for a, b in res.edges())
    except KeyError as e:
        ctx.fail("nodes", f"{PROP}:hill_nodes", repr(e))
        return
    base = sorted(set(start_edges) | set(fixed))
    detail = {"result": edges, "start": base, "fixed": fixed, "black": black, "white": white, "max_indegree": op["max_indegree"], "score": kind}
    if got_nodes != list(range(n)):
        ctx.fail("nodes", f"{PROP}:hill_nodes", dict(detail, nodes=got_nodes))
        return
    if not is_acyclic(n, edges):
        ctx.fail("acyclic", f"{PROP}:hill_cyclic", detail)
        return
    if any(e not in edges for e in fixed):
        ctx.fail("fixed_edges", f"{PROP}:hill_fixed_edge_missing", detail)
    if black and any(e in black for e in edges if e not in base):
        ctx.fail("black_list", f"{PROP}:hill_black_listed_edge", detail)
    if white is not None and any(e not in white for e in edges if e not in base):
        ctx.fail("white_list", f"{PROP}:hill_non_white_listed_addition", detail)
    if op["max_indegree"] is not None:
        base_in = {v: sum(1 for a, b in base if b == v) for v in range(n)}
        for v in range(n):
            k = sum(1 for a, b in edges if b == v)
            if k > max(op["max_indegree"], base_in[v]):
                ctx.fail("max_indegree", f"{PROP}:hill_indegree", dict(detail, node=v, indegree=k))
                break
    s_res, s_base = ref.score(n, edges), ref.score(n, base)
    if s_res < s_base - 1e-7 * max(1.0, abs(s_base)):
        ctx.fail("no_worse_than_start", f"{PROP}:hill_score_below_start", dict(detail, score_result=s_res, score_start=s_base))
    if edges != base:
        ctx.probe("hill_moved")
    # local optimum (only claimed with the tabu list disabled and the iteration budget not binding)
    if op["tabu"] == 0 and op["max_iter"] >= 1000:
        maxin = op["max_indegree"] if op["max_indegree"] is not None else 10**9
        eset = set(edges)
        best = None
        pa = {v: [a for a, b in edges if b == v] for v in range(n)}
        for x in range(n):
            for y in range(n):
                if x == y:
                    continue
                if (x, y) not in eset and (y, x) not in eset:
                    if is_acyclic(n, edges + [(x, y)]) and (black is None or (x, y) not in black) and (white is None or (x, y) in white) and len(pa[y]) + 1 <= maxin:
                        d = ref.local(y, pa[y] + [x]) - ref.local(y, pa[y]) + ref.prior_delta("+")
                        if best is None or d > best[0]:
                            best = (d, "+", (x, y))
                if (x, y) in eset:
                    if (x, y) not in fixed:
                        d = ref.local(y, [p for p in pa[y] if p != x]) - ref.local(y, pa[y]) + ref.prior_delta("-")
                        if best is None or d > best[0]:
                            best = (d, "-", (x, y))
                        rest = [e for e in edges if e != (x, y)]
                        if is_acyclic(n, rest + [(y, x)]) and (black is None or (y, x) not in black) and (white is None or (y, x) in white) and len(pa[x]) + 1 <= maxin:
                            d = (ref.local(x, pa[x] + [y]) + ref.local(y, [p for p in pa[y] if p != x]) - ref.local(x, pa[x]) - ref.local(y, pa[y]))
                            if best is None or d > best[0]:
                                best = (d, "flip", (x, y))
        ctx.probe("hill_local_optimum_checked")
        slack = 0.0 if kind == "count" else 1e-6   # integer score: exact arithmetic, the boundary delta == epsilon counts
        if best is not None and best[0] >= op["epsilon"] + slack:
            ctx.fail("local_optimum", f"{PROP}:hill_improving_move_left", dict(detail, move=[best[1], list(best[2])], delta=best[0], epsilon=op["epsilon"]))


def _exhaustive(case, ctx, op):
    from pgmpy.estimators import ExhaustiveSearch

    world, rows, _ = project_world(case["world"], case["rows"], True)
    names = Names(world)
    n = world["n"]
    if n > 4:
        return
    df = make_frame(world, names, rows)
    sn = {names.L(v): list(names.states[v]) for v in range(n)}
    kind = op["score"]
    ref = RefScorer(kind, world["card"], rows, case["ess"])
    ctx.event("exhaustive", kind, op["use_cache"])
    try:
        es = ExhaustiveSearch(df, scoring_method=_pgmpy_scorer(kind, df, sn, case["ess"]), use_cache=op["use_cache"])
        res = es.estimate()
    except Exception as e:
        ctx.fail("succeeds", f"{PROP}:raise:exhaustive:{type(e).__name__}:{exc_site(e)}", exc_brief(e))
        return
    ctx.checked += 1
    try:
        edges = sorted((names.lab2idx[a], names.lab2idx[b]) for a, b in res.edges())
        nodes = sorted(names.lab2idx[x] for x in res.nodes())
    except KeyError as e:
        ctx.fail("nodes", f"{PROP}:exhaustive_nodes", repr(e))
        return
    if nodes != list(range(n)) or not is_acyclic(n, edges):
        ctx.fail("nodes", f"{PROP}:exhaustive_not_a_dag_on_columns", {"nodes": nodes, "edges": edges})
        return
    best = max(ref.score(n, d) for d in all_dags(n))
    got = ref.score(n, edges)
    if got < best - 1e-7 * max(1.0, abs(best)):
        ctx.fail("global_maximum", f"{PROP}:exhaustive_not_maximal", {"result": edges, "score": got, "max": best, "kind": kind})
        return
    # all_scores(): every DAG on the columns exactly once, each with its score, in ascending order
    try:
        listing = list(es.all_scores())
    except Exception as e:
        ctx.fail("succeeds", f"{PROP}:raise:all_scores:{type(e).__name__}:{exc_site(e)}", exc_brief(e))
        return
    ctx.checked += 1
    want = {frozenset(d) for d in all_dags(n)}
    seen = set()
    prev = -math.inf
    for sc_, dag in listing:
        try:
            d_edges = frozenset((names.lab2idx[a], names.lab2idx[b]) for a, b in dag.edges())
            d_nodes = sorted(names.lab2idx[x] for x in dag.nodes())
        except KeyError as e:
            ctx.fail("nodes", f"{PROP}:all_scores_nodes", repr(e))
            return
        if d_nodes != list(range(n)) or d_edges not in want or d_edges in seen:
            ctx.fail("enumeration", f"{PROP}:all_scores_enumeration", {"dag": sorted(d_edges), "nodes": d_nodes, "duplicate": d_edges in seen})
            return
        seen.add(d_edges)
        rs = ref.score(n, sorted(d_edges))
        if not close(float(sc_), rs, atol=1e-7, rtol=1e-9):
            ctx.fail("enumeration", f"{PROP}:all_scores_value", {"dag": sorted(d_edges), "got": float(sc_), "want": rs, "kind": kind})
            return
        if float(sc_) < prev - 1e-9 * max(1.0, abs(prev)):
            ctx.fail("enumeration", f"{PROP}:all_scores_not_sorted", {"prev": prev, "score": float(sc_)})
            return
        prev = float(sc_)
    if seen != want:
        ctx.fail("enumeration", f"{PROP}:all_scores_enumeration", {"missing": len(want - seen), "n": n})
    ctx.probe("all_scores_checked")


def _tree(case, ctx, op):
    from pgmpy.estimators import TreeSearch

    world, rows, _ = project_world(case["world"], case["rows"], True)
    names = Names(world)
    n = world["n"]
    card = world["card"]
    df = make_frame(world, names, rows)
    root = op["root"] % n
    seams.install_parallel(random.Random(op["jobseed"]), ctx)
    try:
        ts = TreeSearch(df, root_node=names.L(root), n_jobs=op["n_jobs"])
    except Exception as e:
        ctx.fail("succeeds", f"{PROP}:raise:tree_ctor:{type(e).__name__}:{exc_site(e)}", exc_brief(e))
        return
    if len(op["calls"]) > 1:
        ctx.probe("tree_estimator_reused")
    for call in op["calls"]:
        wkind = call["weights"]
        typ = call["type"]
        cls = call["class_node"] % n
        if typ == "tan" and (cls == root or n < 3):
            continue
        if typ == "tan" and wkind == "callable_agree":
            wkind = "callable_sq"
        if typ == "tan" and wkind == "normalized_mutual_info":
            # sklearn defines NMI = 1 for two constant labelings, which occurs inside class-conditional subsets; the stated
            # property is about (strictly positive) mutual-information weights
            wkind = "mutual_info"
        if typ == "tan" and len({r[cls] for r in rows}) < card[cls]:
            ctx.probe("tan_skipped_unobserved_class_state")
            continue  # outside the stated property (Chow-Liu); TAN on a class column with an unobserved declared category fails inside sklearn
        feats = [v for v in range(n) if not (typ == "tan" and v == cls)]
        w = np.zeros((n, n))
        ok = True
        for a, b in itertools.combinations(feats, 2):
            if typ == "chow-liu":
                val = weight_fn(wkind, card, rows, a, b, states=names.states)
            else:
                val = 0.0
                for c in range(card[cls]):
                    sub = [r for r in rows if r[cls] == c]
                    if sub:
                        val += len(sub) / len(rows) * weight_fn(wkind, card, sub, a, b)
            w[a, b] = w[b, a] = val
            if val <= 1e-9:
                ok = False
        if not ok:
            ctx.probe("tree_zero_weight_pair_skipped")
            continue  # the property is stated for strictly positive pairwise weights
        fn = {"callable_sq": _sq_mi, "callable_agree": _agree}.get(wkind, wkind)
        ctx.event("tree", typ, wkind, root, cls, op["n_jobs"])
        try:
            kw = {"class_node": names.L(cls)} if typ == "tan" else {}
            res = ts.estimate(estimator_type=typ, edge_weights_fn=fn, show_progress=False, **kw)
        except Exception as e:
            ctx.fail("succeeds", f"{PROP}:raise:tree:{type(e).__name__}:{exc_site(e)}", {"exc": exc_brief(e), "type": typ, "weights": wkind})
            continue
        ctx.checked += 1
        try:
            edges = sorted((names.lab2idx[a], names.lab2idx[b]) for a, b in res.edges())
        except KeyError as e:
            ctx.fail("nodes", f"{PROP}:tree_nodes", repr(e))
            continue
        detail = {"type": typ, "weights": wkind, "root": root, "class": cls if typ == "tan" else None, "edges": edges}
        tree_edges = [(a, b) for a, b in edges if not (typ == "tan" and a == cls)]
        if typ == "tan":
            if sorted(b for a, b in edges if a == cls) != feats:
                ctx.fail("tan_class_edges", f"{PROP}:tan_class_edges", detail)
                continue
        # a spanning tree over feats directed away from the root
        indeg = {v: sum(1 for a, b in tree_edges if b == v) for v in feats}
        if len(tree_edges) != len(feats) - 1 or indeg.get(root, 0) != 0 or any(indeg[v] != 1 for v in feats if v != root) or not is_acyclic(n, tree_edges):
            ctx.fail("directed_from_root", f"{PROP}:tree_not_directed_from_root", detail)
            continue
        got_w = sum(w[a, b] for a, b in tree_edges)
        best = max_spanning_weight(feats, w)
        if got_w < best - 1e-9 * max(1.0, best):
            ctx.fail("maximum_spanning_tree", f"{PROP}:tree_not_maximum_weight", dict(detail, weight=got_w, max=best))


def shrink_candidates(case):
    rows = case["rows"]
    if len(rows) > 4:
        for cut in (len(rows) // 2, len(rows) - 1):
            out = copy.deepcopy(case)
            out["rows"] = rows[:cut]
            yield out
    w = case["world"]
    if any(not (isinstance(l, str) and l == f"v{i}") for i, l in enumerate(w["labels"])):
        out = copy.deepcopy(case)
        out["world"]["labels"] = [f"v{i}" for i in range(w["n"])]
        yield out
    for i, op in enumerate(case["ops"]):
        if op["op"] == "hill":
            for key, val in (("black", None), ("white", None), ("max_indegree", None), ("use_cache", False), ("cache_size", 10000), ("fixed", []), ("start", []),
                             ("epsilon", 1e-4), ("as_instance", False)):
                if op.get(key) != val:
                    out = copy.deepcopy(case)
                    out["ops"][i][key] = val
                    yield out
        if op["op"] == "tree":
            if len(op["calls"]) > 1:
                for j in range(len(op["calls"])):
                    out = copy.deepcopy(case)
                    del out["ops"][i]["calls"][j]
                    yield out
            if op["n_jobs"] != 1:
                out = copy.deepcopy(case)
                out["ops"][i]["n_jobs"] = 1
                yield out
