"""C17 - dynamic-network inference equals inference on the unrolled network.

Simulated: the two junction trees of the interface algorithm and `_get_clique(...)[0]` depend on hash order (labels x
PYTHONHASHSEED); forward / backward inference push messages through stateful BeliefPropagation engines that are re-created,
mutated (clique factors swapped) and re-calibrated slice by slice; ONE DBNInference object answers several queries per run.
Oracle: brute-force joint of the unrolled network."""
import copy

import numpy as np

from .. import world as W
from ..core import exc_brief, exc_site
from ..prng import shuffled, weighted
from ..realise import to_np
from ..refmodel import RefJoint, close, is_acyclic

PROP = "C17"


def generate(streams, tier):
    big = tier == "thorough"
    r = streams.s("world")
    k = r.choice([1, 2, 2, 2, 3, 3, 3, 3])
    card = [r.choice([2, 2, 3]) for _ in range(k)]
    order = shuffled(r, range(k))
    intra = []
    for i in range(k):
        for j in range(i):
            if r.random() < 0.5:
                intra.append([order[j], order[i]])
    if r.random() < 0.85:
        # every variable takes part in an intra-slice edge (DBNInference builds the slice-0 network from the intra-slice edges)
        for i in range(1, k):
            if not any(order[i] in e for e in intra):
                intra.append([order[r.randrange(i)], order[i]])
        if k >= 2 and not any(order[0] in e for e in intra):
            intra.append([order[0], order[1]])
    style = weighted(r, [("persist", 5), ("persist_plus", 3), ("free", 2)])
    inter = []
    if style in ("persist", "persist_plus"):
        keep = [v for v in range(k) if r.random() < 0.7] or [r.randrange(k)]
        inter = [[v, v] for v in keep]
        if style == "persist_plus":
            for a in range(k):
                for b in range(k):
                    if a != b and r.random() < 0.25:
                        inter.append([a, b])
    else:
        for a in range(k):
            for b in range(k):
                if r.random() < 0.35:
                    inter.append([a, b])
        if not inter:
            inter = [[0, 0]]
    # tables: slice 0: P(X | intra parents); slice 1: P(X | intra parents at 1, inter parents at 0)
    rz = streams.s("zeros")
    zero_rate = rz.choice([0.0, 0.0, 0.15, 0.4])      # exact zeros / deterministic columns: left-to-right chains, impossible emissions
    onehot_rate = rz.choice([0.0, 0.0, 0.1, 0.4])

    def table(v, pcards):
        return W.gen_table(r, card[v], pcards, zero_rate=zero_rate, onehot_rate=onehot_rate)

    par0 = [[a for a, b in intra if b == v] for v in range(k)]
    par1 = [[[a, 1] for a, b in intra if b == v] + [[a, 0] for a, b in inter if b == v] for v in range(k)]
    par1 = [shuffled(r, p) for p in par1]
    par0 = [shuffled(r, p) for p in par0]
    t0 = [table(v, [card[p] for p in par0[v]]) for v in range(k)]
    t1 = [table(v, [card[p] for p, _ in par1[v]]) for v in range(k)]
    rl = streams.s("labels")
    labels, _ = W.gen_labels(rl, k, weighted(rl, [("str", 3), ("short", 3), ("int", 1)]))
    rw = streams.s("workload")
    tmax = 3 if not big else 4
    ops = []
    for _ in range(rw.randint(1, 4)):
        T = rw.randint(0, tmax)
        nq = rw.randint(1, 2)
        qs = []
        for _ in range(nq):
            q = [rw.randrange(k), rw.randint(0, T)]
            if q not in qs:
                qs.append(q)
        ev = {}
        for _ in range(rw.choice([0, 1, 1, 2, 3])):
            e = (rw.randrange(k), rw.randint(0, T))
            if list(e) not in qs:
                ev[e] = rw.randrange(card[e[0]])
        ops.append({"op": weighted(rw, [("query", 5), ("forward", 3), ("backward", 2)]), "q": qs, "ev": [[a, t, s] for (a, t), s in sorted(ev.items())]})
    ops.append({"op": "constant_bn"})
    ops.append({"op": "init_state", "direction": rw.choice([0, 1])})
    return {"k": k, "card": card, "intra": intra, "inter": inter, "par0": par0, "par1": par1, "t0": t0, "t1": t1, "labels": labels, "ops": ops,
            "config": {"edge_order": rw.random(), "cpd_order": rw.random()}}


def describe(case):
    return {k: case[k] for k in ("k", "card", "intra", "inter", "labels")} | {"ops": case["ops"]}


def unrolled_world(case, T):
    k, card = case["k"], case["card"]
    n = k * (T + 1)
    cards, parents, tables = [], [], []
    for t in range(T + 1):
        for v in range(k):
            cards.append(card[v])
            if t == 0:
                parents.append([p for p in case["par0"][v]])
                tables.append(case["t0"][v])
            else:
                parents.append([(t if s == 1 else t - 1) * k + p for p, s in case["par1"][v]])
                tables.append(case["t1"][v])
    return {"kind": "bn", "n": n, "card": cards, "parents": parents, "tables": tables}


def build_dbn(case):
    import random
    from pgmpy.factors.discrete import TabularCPD
    from pgmpy.models import DynamicBayesianNetwork as DBN

    k, card, L = case["k"], case["card"], case["labels"]
    L = [W.dec(x) for x in L]
    dbn = DBN()
    edges = [((L[a], 0), (L[b], 0)) for a, b in case["intra"]] + [((L[a], 0), (L[b], 1)) for a, b in case["inter"]]
    random.Random(int(case["config"]["edge_order"] * 1e9)).shuffle(edges)
    for v in range(k):
        dbn.add_node(L[v])
    dbn.add_edges_from(edges)
    cpds = []
    for v in range(k):
        ps = case["par0"][v]
        cpds.append(TabularCPD((L[v], 0), card[v], case["t0"][v], evidence=[(L[p], 0) for p in ps] or None, evidence_card=[card[p] for p in ps] or None))
        ps1 = case["par1"][v]
        cpds.append(TabularCPD((L[v], 1), card[v], case["t1"][v], evidence=[(L[p], s) for p, s in ps1] or None, evidence_card=[card[p] for p, s in ps1] or None))
    random.Random(int(case["config"]["cpd_order"] * 1e9)).shuffle(cpds)
    dbn.add_cpds(*cpds)
    return dbn, L


def structurally_supported(case):
    """Templates the interface algorithm is defined for: every variable occurs in the 1.5-slice network and both
    slice graphs (with the interface nodes joined into a clique) are connected."""
    k = case["k"]
    src = sorted({a for a, b in case["inter"]})
    tgt = sorted({b for a, b in case["inter"]})
    if not src:
        return False

    def connected(nodes, edges):
        nodes = list(nodes)
        if not nodes:
            return False
        adj = {x: set() for x in nodes}
        for a, b in edges:
            adj[a].add(b)
            adj[b].add(a)
        seen = {nodes[0]}
        st = [nodes[0]]
        while st:
            x = st.pop()
            for y in adj[x]:
                if y not in seen:
                    seen.add(y)
                    st.append(y)
        return len(seen) == len(nodes)

    n0 = [(v, 0) for v in range(k)]
    e0 = [((a, 0), (b, 0)) for a, b in case["intra"]] + [((a, 0), (b, 0)) for a in src for b in src if a < b]
    # moral edges of slice 0
    for v in range(k):
        ps = [a for a, b in case["intra"] if b == v]
        e0 += [((a, 0), (b, 0)) for a in ps for b in ps if a < b]
    if not connected(n0, e0):
        return False
    n1 = [(v, 1) for v in range(k)] + [(a, 0) for a in src]
    e1 = [((a, 1), (b, 1)) for a, b in case["intra"]] + [((a, 0), (b, 1)) for a, b in case["inter"]]
    e1 += [((a, 0), (b, 0)) for a in src for b in src if a < b] + [((a, 1), (b, 1)) for a in tgt for b in tgt if a < b]
    for v in range(k):
        ps = [(a, 1) for a, b in case["intra"] if b == v] + [(a, 0) for a, b in case["inter"] if b == v]
        e1 += [(p, q) for p in ps for q in ps if p < q]
    if not connected(n1, e1):
        return False
    return True


def execute(case, ctx):
    from pgmpy.inference import DBNInference

    k, card = case["k"], case["card"]
    if not is_acyclic(k, [tuple(e) for e in case["intra"]]):
        return
    ctx.fault("relabel")
    if not structurally_supported(case):
        ctx.probe("template_outside_interface_algorithm")
        return
    src = sorted({a for a, b in case["inter"]})
    tgt = sorted({b for a, b in case["inter"]})
    sym = src == tgt
    ctx.probe("interface_nodes_%d" % min(len(src), 2))
    try:
        dbn, L = build_dbn(case)
        dbn.check_model()
    except Exception as e:
        ctx.fail("succeeds", f"{PROP}:raise_build:{type(e).__name__}:{exc_site(e)}", exc_brief(e))
        return
    lab2idx = {l: i for i, l in enumerate(L)}
    try:
        eng = DBNInference(dbn)
    except Exception as e:
        no_intra = [v for v in range(k) if not any(v in e_ for e_ in case["intra"])]
        sig = f"{PROP}:raise_ctor:{'sym' if sym else 'asym'}:{type(e).__name__}:{exc_site(e)}"
        if no_intra and isinstance(e, ValueError) and "add_cpds" in exc_site(e):
            sig = f"{PROP}:raise_ctor:variable_without_intra_slice_edge"
        ctx.fail("succeeds", sig, {"exc": exc_brief(e), "inter": case["inter"], "intra": case["intra"], "no_intra_edge": no_intra})
        return
    try:
        ctx.sig_order("layout", sorted(sorted(repr((lab2idx.get(x[0], x[0]), x[1])) for x in c) for c in eng.one_and_half_junction_tree.nodes()))
    except Exception:
        pass
    for i, op in enumerate(case["ops"]):
        ctx.step_no = i
        ctx.steps += 1
        if op["op"] == "constant_bn":
            _constant(ctx, case, dbn, L)
            continue
        if op["op"] == "init_state":
            _init_state(ctx, case, op)
            continue
        qs = [tuple(q) for q in op["q"] if q[0] < k]
        ev = {(a, t): s for a, t, s in op["ev"] if a < k and s < card[a] and (a, t) not in qs}
        if not qs:
            continue
        T = max([t for _, t in qs] + [t for _, t in ev])
        world = unrolled_world(case, T)
        if int(np.prod(world["card"])) > 70000:
            continue
        ref = RefJoint.from_bn(world)

        def idx(a, t):
            return t * k + a

        evr = {idx(a, t): s for (a, t), s in ev.items()}
        if ref.prob_evidence(evr) <= 1e-12:
            continue
        ev_on_iface = any(t >= 1 and a in tgt for (a, t) in ev) or any(a in src for (a, t) in ev)
        regime = f"iface{min(len(src), 2)}:{'sym' if sym else 'asym'}:{'ev_on_interface' if ev_on_iface else ('ev' if ev else 'noev')}:{op['op']}:T{min(T, 2)}"
        ctx.event(op["op"], qs, sorted(ev.items()), regime)
        qarg = [(L[a], t) for a, t in qs]
        earg = {(L[a], t): s for (a, t), s in ev.items()} or None
        try:
            if op["op"] == "query":
                res = eng.query(qarg, earg)
            elif op["op"] == "forward":
                res = eng.forward_inference(qarg, earg)
            else:
                res = eng.backward_inference(qarg, earg)
        except Exception as e:
            sig = f"{PROP}:raise:{regime}:{type(e).__name__}:{exc_site(e)}"
            ctx.fail("succeeds", sig, {"exc": exc_brief(e), "q": qs, "ev": sorted(ev.items()), "inter": case["inter"], "intra": case["intra"], "regime": regime})
            continue
        ctx.checked += 1
        nfail = len(ctx.failures)
        for (a, t) in qs:
            key = (L[a], t)
            if key not in res:
                ctx.fail("keys", f"{PROP}:missing_result:{regime}", {"q": [a, t], "keys": [repr(x) for x in res]})
                continue
            got = to_np(res[key].values)
            if op["op"] == "forward":
                use = {i_: s for i_, s in evr.items() if i_ // k <= t}
            else:
                use = evr
            want = ref.posterior([idx(a, t)], use)
            if got.shape != want.shape or not close(got, want, atol=1e-8, rtol=1e-6):
                sig = f"{PROP}:value:{regime}"
                # explained-by predicate of the open smoothing finding (everything else in smoothing is strict): the backward pass
                # answers slice s >= 1 before it moves on; the answer re-initialises the engine and the message carried to the
                # earlier slices is lost (pinned by an existing test) -> marginals of slices below a queried slice s >= 1 are wrong
                if op["op"] in ("query", "backward") and T >= 1:
                    later = any(s_ > t and s_ >= 1 for (_, s_) in qs)
                    ev_src = any(a_ in src for (a_, _) in ev)
                    if later:
                        sig = f"{PROP}:value:smoothing_below_a_queried_slice"
                    elif ev_src:
                        # (b) evidence on a forward-interface variable is mishandled by the backward pass (pinned by an existing test too)
                        sig = f"{PROP}:value:smoothing_with_evidence_on_interface_variable"
                ctx.fail("marginals", sig, {"q": [a, t], "ev": sorted(ev.items()), "got": np.asarray(got).round(6).tolist(), "want": want.round(6).tolist(),
                                            "inter": case["inter"], "intra": case["intra"], "regime": regime})
                break
        ctx.probe(("ok:" if len(ctx.failures) == nfail else "bad:") + regime)


def _constant(ctx, case, dbn, L):
    """get_constant_bn exposes the template's CPDs unchanged."""
    from pgmpy.factors.discrete import TabularCPD

    k, card = case["k"], case["card"]
    # asked twice: the caller owns the network it was given and edits it (replaces a CPD) before asking again
    for round_ in (0, 1):
        if not _constant_once(ctx, case, dbn, L, round_):
            return
    return


def _constant_once(ctx, case, dbn, L, round_):
    from pgmpy.factors.discrete import TabularCPD

    k, card = case["k"], case["card"]
    try:
        bn = dbn.get_constant_bn()
    except Exception as e:
        ctx.fail("succeeds", f"{PROP}:raise:constant_bn:{type(e).__name__}:{exc_site(e)}", exc_brief(e))
        return False
    ctx.checked += 1
    ctx.event("constant_bn", round_)
    ok = _constant_check(ctx, case, bn, L, round_)
    if ok and round_ == 0:
        try:
            for name in [f"{L[k - 1]}_1", f"{L[0]}_0"]:
                old = bn.get_cpds(name)
                c = int(old.variable_card)
                ev = list(old.variables[1:])
                ecard = [int(x) for x in old.cardinality[1:]]
                ncol = int(np.prod(ecard)) if ev else 1
                kw = {"evidence": ev, "evidence_card": ecard} if ev else {}
                bn.remove_cpds(old)
                bn.add_cpds(TabularCPD(name, c, [[1.0 / c] * ncol for _ in range(c)], state_names={x: list(old.state_names[x]) for x in [name] + ev}, **kw))
            ctx.fault("object_history")
        except Exception as e:
            ctx.probe("constant_bn_edit_failed:" + type(e).__name__)
    return ok


def _constant_check(ctx, case, bn, L, round_):
    k, card = case["k"], case["card"]
    for v in range(k):
        for t, tab, ps in ((0, case["t0"][v], [(p, 0) for p in case["par0"][v]]), (1, case["t1"][v], [tuple(x) for x in case["par1"][v]])):
            name = f"{L[v]}_{t}"
            try:
                cpd = bn.get_cpds(name)
            except Exception as e:
                ctx.fail("constant_bn", f"{PROP}:constant_bn_missing_node", {"node": name, "exc": exc_brief(e), "call": round_})
                return False
            if cpd is None:
                ctx.fail("constant_bn", f"{PROP}:constant_bn_missing_cpd", {"node": name, "call": round_})
                return False
            want_ev = [f"{L[p]}_{s}" for p, s in ps]
            vals = to_np(cpd.get_values())
            if list(cpd.variables[1:]) != want_ev or not close(vals, np.asarray(tab, dtype=float), atol=1e-12, rtol=1e-12):
                ctx.fail("constant_bn", f"{PROP}:constant_bn_cpd_changed", {"node": name, "evidence": list(cpd.variables[1:]), "want_evidence": want_ev, "call": round_})
                return False
    return True


def shrink_candidates(case):
    for j in range(len(case["ops"])):
        op = case["ops"][j]
        if op.get("ev"):
            for e in range(len(op["ev"])):
                out = copy.deepcopy(case)
                del out["ops"][j]["ev"][e]
                yield out
        if op.get("q") and len(op["q"]) > 1:
            for e in range(len(op["q"])):
                out = copy.deepcopy(case)
                del out["ops"][j]["q"][e]
                yield out
    if any(l != "v%d" % i for i, l in enumerate(case["labels"])):
        out = copy.deepcopy(case)
        out["labels"] = ["v%d" % i for i in range(case["k"])]
        yield out


def _init_state(ctx, case, op):
    """initialize_initial_state copies a CPD given for one slice to the other slice without altering it (compared by parent name)."""
    from pgmpy.factors.discrete import TabularCPD
    from pgmpy.models import DynamicBayesianNetwork as DBN

    k, card = case["k"], case["card"]
    L = [W.dec(x) for x in case["labels"]]
    free = [v for v in range(k) if not any(b == v for a, b in case["inter"])]  # same parents in both slices
    if not free:
        return
    src_t = op["direction"]
    dst_t = 1 - src_t
    dbn = DBN()
    for v in range(k):
        dbn.add_node(L[v])
    dbn.add_edges_from([((L[a], 0), (L[b], 0)) for a, b in case["intra"]] + [((L[a], 0), (L[b], 1)) for a, b in case["inter"]])
    cpds = []
    for v in range(k):
        if v in free:
            ps = case["par0"][v]
            cpds.append(TabularCPD((L[v], src_t), card[v], case["t0"][v], evidence=[(L[p], src_t) for p in ps] or None, evidence_card=[card[p] for p in ps] or None))
        else:
            ps = case["par0"][v]
            cpds.append(TabularCPD((L[v], 0), card[v], case["t0"][v], evidence=[(L[p], 0) for p in ps] or None, evidence_card=[card[p] for p in ps] or None))
            ps1 = case["par1"][v]
            cpds.append(TabularCPD((L[v], 1), card[v], case["t1"][v], evidence=[(L[p], s_) for p, s_ in ps1] or None, evidence_card=[card[p] for p, s_ in ps1] or None))
    dbn.add_cpds(*cpds)
    ctx.event("init_state", src_t, free)
    try:
        dbn.initialize_initial_state()
    except Exception as e:
        sig = f"{PROP}:raise:init_state:{type(e).__name__}:{exc_site(e)}"
        ctx.fail("succeeds", sig, {"exc": exc_brief(e), "free": free, "card": card, "par0": case["par0"], "direction": src_t})
        return
    ctx.checked += 1
    for v in free:
        got = [c for c in dbn.cpds if c.variable == (L[v], dst_t)]
        if len(got) != 1:
            ctx.fail("init_state", f"{PROP}:init_state_missing_cpd", {"var": v, "n": len(got)})
            return
        c = got[0]
        ps = case["par0"][v]
        want = np.asarray(case["t0"][v], dtype=float).reshape([card[v]] + [card[p] for p in ps])
        got_ps = [(x[0], x[1]) for x in c.variables[1:]]
        if sorted(map(repr, got_ps)) != sorted(repr((L[p], dst_t)) for p in ps):
            ctx.fail("init_state", f"{PROP}:init_state_parents", {"var": v, "got": [repr(x) for x in got_ps], "want": [repr((L[p], dst_t)) for p in ps]})
            return
        vals = to_np(c.values)
        # align the copied CPD's axes to the template's parent order by name
        order = [0] + [1 + got_ps.index((L[p], dst_t)) for p in ps]
        try:
            arr = np.transpose(vals, order)
        except Exception as e:
            ctx.fail("init_state", f"{PROP}:init_state_shape", {"var": v, "shape": list(vals.shape), "want": list(want.shape)})
            return
        if arr.shape != want.shape or not close(arr, want, atol=1e-12, rtol=1e-12):
            multi = len(ps) >= 2
            ctx.fail("init_state", f"{PROP}:init_state_cpd_altered" + (":multi_parent" if multi else ""),
                     {"var": v, "parents": ps, "card": card, "shape": list(arr.shape), "want_shape": list(want.shape), "direction": src_t})
            return
