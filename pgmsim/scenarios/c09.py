"""C09 - writing a model to a file and reading it back returns the same model.

Seams: the file system (SimFS under /simfs with injected ENOSPC / EIO at open / write / close / read),
the joblib executor of the BIF reader (SimParallel), hash order (every worker has its own PYTHONHASHSEED;
the UAI reader takes parent order from a set).  Oracle: named-assignment conditional tables of the source."""
import copy
import math
import errno
import itertools
import random

import numpy as np

from .. import seams, world as W
from ..core import exc_brief, exc_site
from ..prng import shuffled, weighted
from ..realise import Mismatch, Names, build_bn, build_mn, factor_to_logical, snapshot_bn, to_np
from ..refmodel import RefJoint, close, maxdiff
from . import c02

PROP = "C09"
FORMATS_BN = ["bif", "xmlbif", "uai", "net"]


def generate(streams, tier):
    big = tier == "thorough"
    r = streams.s("kind")
    kind = weighted(r, [("bn", 8), ("mn", 2)])
    rw = streams.s("workload")
    if kind == "bn":
        bigtab = r.random() < (0.08 if not big else 0.15)
        world = W.gen_bn(streams, max_n=6 if not bigtab else 7, min_n=1, max_card=4, max_parents=5 if bigtab else 4, max_joint=10**9,
                         label_mode="str", keyword_rate=r.choice([0.0, 0.0, 0.3, 0.8]), tiny_rate=r.choice([0.0, 0.2, 0.6]),
                         state_modes=[("default", 2), ("str", 3), ("int_sorted", 1), ("int", 1)], max_table=2500, big_card_rate=0.15)
        _maybe_wide_variable(streams.s("wide"), world, 0.1 if not big else 0.2)
        config = W.gen_bn_config(streams, world)
        fmts = FORMATS_BN
    else:
        world = W.gen_mn(streams, max_n=6, min_n=2, max_card=4, max_joint=4096, connected=r.random() < 0.7, label_mode="str", state_named=False, big_card_rate=0.4)
        # positive magnitudes over a wide range
        rr = streams.s("values")
        for f in world["factors"]:
            f["values"] = [float(x) if rr.random() < 0.7 else x * 10.0 ** (-rr.randint(1, 12)) for x in f["values"]]
        ri = streams.s("insertion")
        config = {"factor_order": shuffled(ri, range(len(world["factors"]))), "edge_order": shuffled(ri, world["edges"])}
        fmts = ["uai"]
    ops = []
    for _ in range(rw.randint(1, 3)):
        fmt = rw.choice(fmts)
        route = weighted(rw, [("class", 3), ("file", 3), ("save_load", 2 if fmt in ("bif", "uai", "xmlbif") and kind == "bn" else 0)])
        op = {"op": "roundtrip", "fmt": fmt, "route": route, "n_jobs": rw.choice([1, 2, -1]), "jobseed": rw.randrange(2**31)}
        if route != "class" and rw.random() < 0.6:
            # fault plan: which of the file-system calls of the save / load fail (indices resolved at run time modulo the call count)
            op["faults"] = [{"kind": rw.choice(["open", "write", "close", "read", "open_read"]), "pick": rw.randrange(1000),
                             "err": rw.choice(["ENOSPC", "EIO"])} for _ in range(rw.randint(1, 3))]
        if kind == "bn" and ops and rw.random() < 0.5:
            # the same network written a second time in this process with its parents declared in another order (same distribution):
            # whatever a writer or reader remembers from the first file must not leak into the second
            op["parent_variant"] = rw.randrange(2**31)
            if rw.random() < 0.7:
                op["fmt"] = ops[-1]["fmt"]
                if op["route"] == "save_load" and op["fmt"] == "net":
                    op["route"] = "file"
        ops.append(op)
    return {"kind": kind, "world": world, "config": config, "ops": ops}


def parent_order_variant(world, seed):
    """The same network with every multi-parent CPD declared in another parent order (table columns permuted alike)."""
    r = random.Random(seed)
    w = copy.deepcopy(world)
    for v in range(w["n"]):
        ps = list(w["parents"][v])
        if len(ps) < 2:
            continue
        new = list(ps)
        while new == ps:
            r.shuffle(new)
        t = np.asarray(w["tables"][v], dtype=float).reshape([w["card"][v]] + [w["card"][p] for p in ps])
        t = np.transpose(t, [0] + [1 + ps.index(p) for p in new])
        w["parents"][v] = new
        w["tables"][v] = t.reshape(w["card"][v], -1).tolist()
    return w


def _maybe_wide_variable(r, world, rate):
    """A sink variable with hundreds of states whose columns hold one or two large entries and a long tail of entries below
    the four-decimal rounding step (a state space such as a zip code or a word list): the rounded column of a NET file sums
    to visibly less than one, and every format has to carry a very long row."""
    if r.random() >= rate:
        return
    n = world["n"]
    sinks = [v for v in range(n) if not any(v in world["parents"][c] for c in range(n))]
    sinks = [v for v in sinks if W._prod([world["card"][p] for p in world["parents"][v]]) <= 2]  # the BIF reader needs seconds per thousand numbers
    if not sinks:
        return
    v = r.choice(sinks)
    k = r.randint(240, 290)
    ncols = W._prod([world["card"][p] for p in world["parents"][v]])
    cols = []
    for _ in range(ncols):
        lo = 4.2e-5 if r.random() < 0.6 else 1e-6   # a heavy tail loses more than a hundredth of the column's mass to rounding
        tail = [r.uniform(lo, 4.99e-5) for _ in range(k)]
        heads = r.sample(range(k), r.choice([1, 1, 2]))
        for h in heads:
            tail[h] = 0.0
        rest = 1.0 - math.fsum(tail)
        w = [r.random() + 0.2 for _ in heads]
        for h, wh in zip(heads, w):
            tail[h] = rest * wh / sum(w)
        cols.append(tail)
    world["card"][v] = k
    world["tables"][v] = [[cols[j][i] for j in range(ncols)] for i in range(k)]
    if world["states"][v] is not None:
        world["states"][v] = ["w%d" % i for i in range(k)]
    world["wide"] = v


def describe(case):
    w = case["world"]
    return {"kind": case["kind"], "n": w["n"], "card": w["card"], "labels": w["labels"], "states": w["states"],
            "parents": w.get("parents"), "ops": case["ops"]}


# --------------------------------------------------------------------------------------------------
def writer_for(fmt, model):
    from pgmpy.readwrite import BIFWriter, NETWriter, UAIWriter, XMLBIFWriter

    return {"bif": BIFWriter, "xmlbif": XMLBIFWriter, "uai": UAIWriter, "net": NETWriter}[fmt](model)


def write_file(fmt, model, path):
    w = writer_for(fmt, model)
    getattr(w, {"bif": "write_bif", "xmlbif": "write_xmlbif", "uai": "write_uai", "net": "write_net"}[fmt])(path)


def read_string(fmt, text, n_jobs):
    from pgmpy.readwrite import BIFReader, NETReader, UAIReader, XMLBIFReader

    if fmt == "bif":
        return BIFReader(string=text, n_jobs=n_jobs).get_model()
    if fmt == "xmlbif":
        return XMLBIFReader(string=text).get_model()
    if fmt == "uai":
        return UAIReader(string=text).get_model()
    return NETReader(string=text).get_model()


def read_file(fmt, path, n_jobs):
    from pgmpy.readwrite import BIFReader, NETReader, UAIReader, XMLBIFReader

    if fmt == "bif":
        return BIFReader(path=path, n_jobs=n_jobs).get_model()
    if fmt == "xmlbif":
        return XMLBIFReader(path=path).get_model()
    if fmt == "uai":
        return UAIReader(path=path).get_model()
    return NETReader(path=path).get_model()


def str_world(world):
    """What a text format can preserve: names and state names as strings."""
    w = copy.deepcopy(world)
    w["labels"] = [str(x) for x in world["labels"]]
    w["states"] = [[str(s) for s in (st if st is not None else range(world["card"][v]))] for v, st in enumerate(world["states"])]
    return w


def compare_bn(ctx, world, model2, fmt, what):
    """model2 (read back) against the source world.  True if equal."""
    n = world["n"]
    tol = dict(atol=5.1e-5, rtol=0.0) if fmt == "net" else dict(atol=1e-300, rtol=1e-12)
    if fmt == "uai":
        return compare_bn_uai(ctx, world, model2, what)
    w2 = str_world(world)
    names = Names(w2)
    nodes = sorted(map(str, model2.nodes()))
    if nodes != sorted(w2["labels"]) or any(not isinstance(x, str) for x in model2.nodes()):
        ctx.fail("structure", f"{PROP}:nodes:{fmt}", {"got": nodes, "want": sorted(w2["labels"]), "what": what})
        return False
    edges = sorted((names.lab2idx[a], names.lab2idx[b]) for a, b in model2.edges())
    want_edges = sorted((p, v) for v in range(n) for p in world["parents"][v])
    if edges != want_edges:
        ctx.fail("structure", f"{PROP}:edges:{fmt}", {"got": edges, "want": want_edges, "what": what})
        return False
    for v in range(n):
        cpd = model2.get_cpds(names.L(v))
        if cpd is None:
            ctx.fail("structure", f"{PROP}:missing_cpd:{fmt}", {"var": v, "what": what})
            return False
        try:
            lv, arr = factor_to_logical(cpd.to_factor(), names, expect_vars=[v] + list(world["parents"][v]))
        except Mismatch as e:
            ctx.fail("state_names", f"{PROP}:labels:{fmt}", {"var": v, "why": str(e), "what": what})
            return False
        want = RefJoint._bn_factor(world, v)
        want = want.reshape([world["card"][u] for u in sorted([v] + list(world["parents"][v]))])
        if not close(arr, want, **tol):
            ctx.fail("probabilities", f"{PROP}:values:{fmt}", {"var": v, "maxdiff": maxdiff(arr, want), "what": what,
                                                               "parents": world["parents"][v], "card": world["card"]})
            return False
    return True


def _uai_candidates(world):
    """Bijections original variable -> position: the writer's documented-by-behaviour rule first, then every
    cardinality-preserving alternative (the property only promises positional names)."""
    n = world["n"]
    labels = [str(x) for x in world["labels"]]
    first = sorted(range(n), key=lambda v: (str(world["card"][v]), labels[v]))
    yield first
    groups = {}
    for v in range(n):
        groups.setdefault(world["card"][v], []).append(v)
    count = 0
    for perm in itertools.permutations(range(n)):
        if list(perm) == first:
            continue
        count += 1
        if count > 800:
            return
        yield list(perm)


def compare_bn_uai(ctx, world, model2, what):
    n = world["n"]
    nodes = sorted(map(str, model2.nodes()))
    if nodes != sorted("var_%d" % i for i in range(n)):
        ctx.fail("structure", f"{PROP}:nodes:uai", {"got": nodes, "what": what})
        return False
    last = None
    first_fail = None
    for ci, order in enumerate(_uai_candidates(world)):
        # order[i] = original variable at position i
        if any(model2.get_cardinality("var_%d" % i) != world["card"][order[i]] for i in range(n) if model2.get_cpds("var_%d" % i) is not None):
            continue
        w2 = copy.deepcopy(world)
        w2["labels"] = [None] * n
        for i, v in enumerate(order):
            w2["labels"][v] = "var_%d" % i
        w2["states"] = [None] * n
        names = Names(w2)
        edges = sorted((names.lab2idx[a], names.lab2idx[b]) for a, b in model2.edges())
        want_edges = sorted((p, v) for v in range(n) for p in world["parents"][v])
        if edges != want_edges:
            last = ("edges", {"got": edges, "want": want_edges})
            continue
        ok = True
        for v in range(n):
            cpd = model2.get_cpds(names.L(v))
            if cpd is None:
                ok, last = False, ("missing_cpd", {"var": v})
                break
            try:
                lv, arr = factor_to_logical(cpd.to_factor(), names, expect_vars=[v] + list(world["parents"][v]))
            except Mismatch as e:
                ok, last = False, ("labels", {"var": v, "why": str(e)})
                break
            want = RefJoint._bn_factor(world, v).reshape([world["card"][u] for u in sorted([v] + list(world["parents"][v]))])
            if not close(arr, want, atol=1e-300, rtol=1e-12):
                ok, last = False, ("values", {"var": v, "maxdiff": maxdiff(arr, want), "parents": world["parents"][v], "card": world["card"]})
                break
        if ok:
            return True
        if ci == 0:
            first_fail = last
    kind, detail = first_fail or last or ("values", {})
    detail = dict(detail, what=what)
    sig = f"{PROP}:{kind}:uai"
    if kind == "values" and _uai_parent_order_explains(world, model2):
        sig = f"{PROP}:uai_reader_parent_order"
    ctx.fail("probabilities" if kind == "values" else "structure", sig, detail)
    return False


def _uai_parent_order_explains(world, model2):
    """Explained-by predicate of the known finding: with the writer's variable numbering, every CPD read back
    equals the source once its parents are re-aligned to the order in which the file lists them."""
    n = world["n"]
    labels = [str(x) for x in world["labels"]]
    order = sorted(range(n), key=lambda v: (str(world["card"][v]), labels[v]))
    pos = {v: i for i, v in enumerate(order)}
    try:
        for v in range(n):
            cpd = model2.get_cpds("var_%d" % pos[v])
            ps = list(world["parents"][v])
            vals = to_np(cpd.values)
            want = np.asarray(world["tables"][v], dtype=float).reshape([world["card"][v]] + [world["card"][p] for p in ps])
            if vals.size != want.size:
                return False
            # the file holds the values in the source's own axis order; the reader only relabelled the axes
            if not close(vals.reshape(-1), want.reshape(-1), atol=1e-300, rtol=1e-12):
                return False
            if sorted(cpd.variables[1:]) != sorted("var_%d" % pos[p] for p in ps):
                return False
        return True
    except Exception:
        return False


def compare_mn_uai(ctx, world, model2, what):
    n = world["n"]
    card = world["card"]
    ref = RefJoint.from_factors(card, world["factors"])
    for order in _uai_candidates(world):
        w2 = copy.deepcopy(world)
        w2["labels"] = [None] * n
        for i, v in enumerate(order):
            w2["labels"][v] = "var_%d" % i
        w2["states"] = [None] * n
        names = Names(w2)
        try:
            if sorted(map(str, model2.nodes())) != sorted(x for x in w2["labels"] if any(names.lab2idx[x] in f["scope"] for f in world["factors"])):
                continue
            arr = np.ones(tuple(card))
            for phi in model2.factors:
                lv, a = factor_to_logical(phi, names)
                arr = arr * a.reshape([card[v] if v in lv else 1 for v in range(n)])
        except (Mismatch, KeyError):
            continue
        scale = max(float(np.abs(ref.arr).max()), 1e-300)
        if close(arr / scale, ref.arr / scale, atol=1e-15, rtol=1e-11):
            return True
    ctx.fail("probabilities", f"{PROP}:values:uai_markov", {"what": what})
    return False


def execute(case, ctx):
    world, kind = case["world"], case["kind"]
    names = Names(world)
    if kind == "bn":
        build = lambda: build_bn(world, case["config"], names)
        compare = lambda m2, fmt, what: compare_bn(ctx, world, m2, fmt, what)
        snap = snapshot_bn
    else:
        build = lambda: build_mn(world, names, factor_order=case["config"]["factor_order"], edge_order=case["config"]["edge_order"])
        compare = lambda m2, fmt, what: compare_mn_uai(ctx, world, m2, what)
        snap = lambda m: c02_snapshot_mn(m)
    ctx.fault("relabel")
    ctx.sig_order("labels", [names.lab2idx[x] for x in set(names.labels)])
    if kind == "bn":
        if any(len(t) * len(t[0]) > 1000 for t in world["tables"]):
            ctx.probe("table_over_1000_entries")
        if any(any(k in str(l) for k in W.KEYWORDS) for l in world["labels"]):
            ctx.probe("keyword_in_name")
        if any(0 < x < 1e-6 for t in world["tables"] for row in t for x in row):
            ctx.probe("tiny_probability")
        if 1 in world["card"]:
            ctx.probe("card1_variable")
        if any(len(p) >= 3 for p in world["parents"]):
            ctx.probe("three_or_more_parents")
    for i, op in enumerate(case["ops"]):
        ctx.step_no = i
        ctx.steps += 1
        fmt, route = op["fmt"], op["route"]
        if kind == "mn" and fmt != "uai":
            continue
        cmp_ = compare
        if kind == "bn" and op.get("parent_variant") is not None:
            wv = parent_order_variant(world, op["parent_variant"])
            model = build_bn(wv, case["config"], names)
            cmp_ = lambda m2, fmt_, what, wv=wv: compare_bn(ctx, wv, m2, fmt_, what)
            ctx.fault("object_history")
        else:
            model = build()
        before = snap(model)
        ctx.event("roundtrip", fmt, route, op.get("n_jobs"), bool(op.get("faults")), op.get("parent_variant") is not None)
        seams.install_parallel(random.Random(op["jobseed"]), ctx)
        fs = seams.install_simfs(ctx)
        try:
            _roundtrip(ctx, op, fmt, route, model, cmp_, fs, kind)
        finally:
            seams.reset_environment()
        if snap(model) != before:
            # writers may reorder model.cpds (list order is not content); anything else is C16's business, reported there
            ctx.probe("model_content_changed_by_writer")


def c02_snapshot_mn(m):
    from ..realise import snapshot_factor

    return {"nodes": sorted(repr(x) for x in m.nodes()), "edges": sorted(repr(tuple(sorted(map(repr, e)))) for e in m.edges()),
            "factors": sorted(repr(snapshot_factor(f)) for f in m.factors)}


def _roundtrip(ctx, op, fmt, route, model, compare, fs, kind):
    from pgmpy.models import BayesianNetwork

    n_jobs = op.get("n_jobs", 1)
    # ---- class route: str(Writer) -> Reader(string=) ------------------------------------------------
    try:
        text = str(writer_for(fmt, model))
    except Exception as e:
        ctx.fail("write", f"{PROP}:raise_write:{fmt}:{type(e).__name__}:{exc_site(e)}", exc_brief(e))
        return
    ctx.checked += 1
    try:
        m2 = read_string(fmt, text, n_jobs)
    except Exception as e:
        ctx.fail("read", _read_sig(fmt, e, text, ctx), {"exc": exc_brief(e), "route": "class"})
        return
    ok = compare(m2, fmt, "class")
    if route == "class" or not ok:
        return
    # ---- file routes on the simulated file system -----------------------------------------------------
    path = seams.SIMFS_PREFIX + "model." + {"bif": "bif", "xmlbif": "xmlbif", "uai": "uai", "net": "net"}[fmt]
    use_save = route == "save_load"

    def do_save():
        if use_save:
            model.save(path, filetype=fmt)
        else:
            write_file(fmt, model, path)

    def do_load():
        if use_save:
            return BayesianNetwork.load(path, filetype=fmt, n_jobs=n_jobs) if fmt == "bif" else BayesianNetwork.load(path, filetype=fmt)
        return read_file(fmt, path, n_jobs)

    # fault-free pass first (it also measures how many file-system calls a save / load makes)
    fs.arm({})
    try:
        do_save()
    except Exception as e:
        ctx.fail("write", f"{PROP}:raise_write_file:{fmt}:{type(e).__name__}:{exc_site(e)}", exc_brief(e))
        return
    save_counts = dict(fs.counts)
    if fs.files.get(path) != text:
        ctx.fail("durable", f"{PROP}:file_content_differs:{fmt}", {"len_file": len(fs.files.get(path) or ""), "len_str": len(text)})
        return
    fs.arm({})
    try:
        m3 = do_load()
    except Exception as e:
        ctx.fail("read", f"{PROP}:raise_read_file:{fmt}:{type(e).__name__}:{exc_site(e)}", {"exc": exc_brief(e), "route": route})
        return
    load_counts = dict(fs.counts)
    if not compare(m3, fmt, route):
        return
    # ---- injected faults ----------------------------------------------------------------------------
    for flt in op.get("faults", []):
        err = errno.ENOSPC if flt["err"] == "ENOSPC" else errno.EIO
        k = flt["kind"]
        if k in ("open", "write", "close"):
            total = save_counts.get(k, 0)
            if total == 0:
                continue
            fs.files.pop(path, None)
            fs.arm({k: flt["pick"] % total}, err)
            try:
                do_save()
                acknowledged = True
            except OSError:
                acknowledged = False
            except Exception as e:
                ctx.fail("fault_surface", f"{PROP}:fault_wrong_exception:{fmt}:{k}:{type(e).__name__}", exc_brief(e))
                continue
            fired = bool(fs.fired)
            fs.disarm()
            if not fired:
                continue
            if acknowledged:
                # a save that returned normally although the file system failed: the file must still be complete
                if fs.files.get(path) != text:
                    ctx.fail("durable", f"{PROP}:acknowledged_save_lost_data:{fmt}:{k}", {"have": len(fs.files.get(path) or ""), "want": len(text)})
                    continue
            # retry after the fault must succeed and load back equal
            fs.arm({})
            try:
                do_save()
                m4 = do_load()
            except Exception as e:
                ctx.fail("retry", f"{PROP}:retry_after_fault_fails:{fmt}:{type(e).__name__}:{exc_site(e)}", exc_brief(e))
                continue
            compare(m4, fmt, "retry_after_" + k + "_fault")
        else:
            kk = "open" if k == "open_read" else "read"
            total = load_counts.get(kk, 0)
            if total == 0:
                continue
            fs.arm({})
            do_save()
            fs.arm({kk: flt["pick"] % total}, err)
            try:
                m5 = do_load()
                got_model = True
            except OSError:
                got_model = False
            except Exception as e:
                # a parser error caused by an I/O error is acceptable as long as no model is returned
                got_model = False
                ctx.probe("read_fault_surfaced_as_other_exception")
            fired = bool(fs.fired)
            fs.disarm()
            if fired and got_model:
                # never return wrong data: if a model came back despite the failed read it must be the right one
                compare(m5, fmt, "load_despite_read_fault")


def _read_sig(fmt, e, text, ctx):
    site = exc_site(e)
    return f"{PROP}:raise_read:{fmt}:{type(e).__name__}:{site}"


def shrink_candidates(case):
    w = case["world"]
    n = w["n"]
    if case["kind"] == "bn":
        from . import c01

        for c in c01.shrink_candidates({"world": w, "config": case["config"], "ops": []}):
            if any(not isinstance(l, str) for l in c["world"]["labels"]):
                continue
            out = copy.deepcopy(case)
            out["world"], out["config"] = c["world"], c["config"]
            yield out
        # plain magnitudes
        for v in range(n):
            t = np.asarray(w["tables"][v], dtype=float)
            if np.any((t > 0) & (t < 1e-4)):
                out = copy.deepcopy(case)
                cols = t.shape[1]
                out["world"]["tables"][v] = np.full_like(t, 1.0 / t.shape[0]).tolist()
                yield out
    for i, op in enumerate(case["ops"]):
        if op.get("faults"):
            for j in range(len(op["faults"])):
                out = copy.deepcopy(case)
                del out["ops"][i]["faults"][j]
                yield out
        if op["route"] != "class":
            out = copy.deepcopy(case)
            out["ops"][i]["route"] = "class"
            out["ops"][i].pop("faults", None)
            yield out
        if op.get("n_jobs") != 1:
            out = copy.deepcopy(case)
            out["ops"][i]["n_jobs"] = 1
            yield out
