"""C07 - samplers draw from the distribution they claim, reproducibly.

Seam: the process-global numpy RNG.  Around every sampler call the simulator seeds / perturbs the global state; the same
`seed` argument must give identical frames whatever happened in between; one sampler object serves several calls.
Oracle, exact per row: valid state names, P(cell | sampled parents) > 0, row count, latent columns only on request, rejection
rows agree with the evidence, likelihood weights equal the product of the evidence CPD entries, Gibbs kernels equal the full
conditionals.  Oracle, law: Hoeffding bound with a 1e-12 per-cell error budget on forward / rejection frequencies."""
import copy
import math
import random

import numpy as np

from .. import seams, world as W
from ..core import exc_brief, exc_site
from ..prng import shuffled, weighted
from ..realise import Names, build_bn, build_mn, to_np
from ..refmodel import RefJoint, close

PROP = "C07"
DELTA = 1e-12


def generate(streams, tier):
    big = tier == "thorough"
    r = streams.s("kind")
    if r.random() < 0.12:
        # Gibbs kernels of a Markov network (potentials on any scale, several factors per variable)
        world = W.gen_mn(streams, max_n=4, min_n=1, max_card=3, max_joint=81, connected=r.random() < 0.7, label_mode=r.choice(["str", "short"]),
                         dup_rate=r.choice([0.0, 0.4]), scale_rate=0.4)
        ri = streams.s("insertion")
        rw = streams.s("workload")
        ops = [{"op": weighted(rw, [("gibbs_kernel", 3), ("gibbs_sample", 1)]), "seed": rw.randrange(2**31), "size": rw.choice([1, 2, 7, 50]),
                "include_latents": False, "perturb": [rw.randrange(2**31) for _ in range(2)]} for _ in range(rw.randint(1, 3))]
        return {"kind": "mn", "world": world, "config": {"factor_order": shuffled(ri, range(len(world["factors"]))), "edge_order": shuffled(ri, world["edges"])},
                "shared": False, "ops": ops}
    world = W.gen_bn(streams, max_n=5, min_n=1, max_card=3, max_parents=3, max_joint=512, label_mode=r.choice(["str", "str", "short", "int"]),
                     state_modes=[("default", 2), ("str", 3), ("int_sorted", 1), ("int", 2), ("mixed", 1)])
    rbig = streams.s("many_configs")
    if rbig.random() < 0.07:
        # a family with several hundred parent configurations (two parents of 15..20 states each, e.g. hour x weekday-and-shift):
        # whatever codes parent configurations compactly must hold more than a byte; many deterministic columns, so a row sampled from
        # the wrong column is an impossible row
        ca, cb, cc = rbig.randint(16, 20), rbig.randint(15, 19), rbig.choice([2, 3])
        labels, lm = W.gen_labels(streams.s("labels_many"), 3, "str")
        tabs = [W.gen_table(rbig, ca, []), W.gen_table(rbig, cb, []), W.gen_table(rbig, cc, [ca, cb], zero_rate=0.2, onehot_rate=0.6)]
        sm = rbig.choice(["default", "str"])
        world = {"kind": "bn", "n": 3, "card": [ca, cb, cc], "parents": [[], [], shuffled(rbig, [0, 1])], "tables": tabs, "labels": labels,
                 "states": [W.gen_states(rbig, c_, sm) for c_ in (ca, cb, cc)], "flags": dict(world.get("flags", {}), motif="many_parent_configurations")}
        if world["parents"][2] == [1, 0]:
            t = np.asarray(tabs[2]).reshape(cc, ca, cb).transpose(0, 2, 1).reshape(cc, -1)
            world["tables"][2] = t.tolist()
    n = world["n"]
    if n >= 2 and r.random() < 0.4:
        world["latents"] = sorted(r.sample(range(n), r.randint(1, max(1, n // 2))))
    if r.random() < 0.2:
        # tables as people type them: root distributions rounded down to 3 decimals (accepted by check_model, sum slightly
        # below one) with an impossible last state
        rr = streams.s("rounding")
        for v in range(n):
            if not world["parents"][v] and world["card"][v] >= 2:
                col = [row[0] for row in world["tables"][v]]
                col[-1] = 0.0
                tot = sum(col)
                if tot <= 0:
                    continue
                col = [math.floor(x / tot * 1000) / 1000.0 for x in col]
                d = 1.0 - sum(col)
                if d > 0.0009:
                    # the samplers accept a deficit of at most 1e-3
                    col[0] = round(col[0] + (d - 0.0009), 6)
                if not (0.0 < 1.0 - sum(col) <= 0.00095):
                    continue
                world["tables"][v] = [[x] for x in col]
        world["flags"]["rounded_roots"] = True
    config = W.gen_bn_config(streams, world)
    ref = RefJoint.from_bn(world)
    rw = streams.s("workload")
    ops = []
    str_labels = isinstance(world["labels"][0], str)
    for _ in range(rw.randint(2, 5)):
        k = weighted(rw, [("forward", 4), ("rejection", 3), ("lw", 3), ("gibbs_kernel", 1), ("gibbs_sample", 1), ("simulate", 3 if str_labels else 0),
                          ("law_forward", 1), ("law_rejection", 1), ("law_simulate", 1 if str_labels else 0), ("simulate_missing", 1 if str_labels else 0)])
        op = {"op": k, "seed": rw.randrange(2**31), "size": rw.choice([1, 2, 7, 50, 400]), "include_latents": rw.random() < 0.5,
              "perturb": [rw.randrange(2**31) for _ in range(2)]}
        if k in ("rejection", "lw", "law_rejection", "simulate"):
            ev = {}
            for v in shuffled(rw, range(n))[: rw.choice([1, 1, 2, 0] if k == "rejection" else [1, 1, 2])]:
                for s in shuffled(rw, range(world["card"][v])):
                    t = dict(ev)
                    t[v] = s
                    if ref.prob_evidence(t) > 0.02:
                        ev = t
                        break
            fams = [v for v in range(n) if len(world["parents"][v]) >= 2]
            if k == "lw" and fams and rw.random() < 0.4:
                # a whole family observed (the child and every parent): the child's term of the weight is a constant of the evidence
                v = rw.choice(fams)
                for _try in range(20):
                    t = {u: rw.randrange(world["card"][u]) for u in [v] + list(world["parents"][v])}
                    if ref.prob_evidence(t) > 1e-6:
                        ev = t
                        break
            op["ev"] = {str(a): b for a, b in ev.items()}
        if k == "forward" and n >= 2 and rw.random() < 0.3:
            cols = rw.sample(range(n), rw.randint(1, n - 1))
            op["partial"] = {"cols": cols, "seed": rw.randrange(2**31), "index": rw.choice(["default", "default", "shuffled", "offset", "labels"])}
        if k == "simulate":
            cand = [v for v in range(n) if str(v) not in op["ev"]]
            op["do"] = {}
            if cand and rw.random() < 0.5:
                v = rw.choice(cand)
                # any state, also one the variable never takes on its own: an intervention sets it regardless
                ok_states = list(range(world["card"][v]))
                if ok_states:
                    op["do"] = {str(v): rw.choice(ok_states)}
            if op["do"]:
                op["ev"] = {}
            op["virt"] = []
            if rw.random() < 0.3:
                cand2 = [v for v in range(n) if str(v) not in op["ev"] and str(v) not in op["do"]]
                if cand2:
                    v = rw.choice(cand2)
                    op["virt"] = [[v, [rw.choice([0.1, 0.25, 0.5, 0.9, 1.0]) for _ in range(world["card"][v])]]]
            op["size"] = rw.choice([1, 5, 40])
        if k == "simulate_missing":
            op["missing_prob"] = rw.choice([0.1, 0.3, 0.5, 0.9])
            op["missing_cols"] = rw.sample(range(n), rw.randint(1, n)) if rw.random() < 0.5 else None
            op["size"] = rw.choice([5, 40, 400])
        if k == "law_simulate":
            # simulate under a hard intervention (and possibly evidence): the law is the truncated factorisation
            v = rw.randrange(n)
            op["do"] = {str(v): rw.randrange(world["card"][v])}
            wd = do_world(world, {v: op["do"][str(v)]})
            refd = RefJoint.from_bn(wd)
            op["ev"] = {}
            if n >= 2 and rw.random() < 0.5:
                u = rw.choice([x for x in range(n) if x != v])
                ok = [s_ for s_ in range(world["card"][u]) if refd.prob_evidence({u: s_}) > 0.1]
                if ok:
                    op["ev"] = {str(u): rw.choice(ok)}
            op["size"] = (20000 if not op["ev"] else 4000) if not big else (100000 if not op["ev"] else 20000)
        if k == "law_forward":
            op["size"] = 20000 if not big else 100000
        if k == "law_rejection":
            op["size"] = 4000 if not big else 20000
        ops.append(op)
    return {"world": world, "config": config, "shared": rw.random() < 0.6, "ops": ops}


def do_world(world, do):
    """The world after the hard intervention do(X = x): no parents, point mass."""
    w = copy.deepcopy(world)
    for v, s_ in do.items():
        w["parents"][v] = []
        w["tables"][v] = [[1.0 if i == s_ else 0.0] for i in range(w["card"][v])]
    return w


def describe(case):
    w = case["world"]
    if case.get("kind") == "mn":
        return {"kind": "mn", "n": w["n"], "card": w["card"], "labels": w["labels"], "factors": [f["scope"] for f in w["factors"]], "ops": [o["op"] for o in case["ops"]]}
    return {"n": w["n"], "card": w["card"], "parents": w["parents"], "labels": w["labels"], "latents": w["latents"], "shared": case["shared"],
            "ops": [{k: v for k, v in op.items() if k != "perturb"} for op in case["ops"]]}


def hoeffding(m):
    return math.sqrt(math.log(2.0 / DELTA) / (2.0 * m))


def cond_prob(world, v, row):
    col = 0
    for p in world["parents"][v]:
        col = col * world["card"][p] + row[p]
    return world["tables"][v][row[v]][col]


def frame_rows(df, names, cols):
    """DataFrame -> list of dicts logical var -> logical state; raises ValueError on an unknown state name."""
    out = []
    arrs = {v: list(df[names.L(v)]) for v in cols}
    for i in range(len(df)):
        row = {}
        for v in cols:
            x = arrs[v][i]
            if hasattr(x, "item"):
                x = x.item()
            row[v] = names.state_index(v, x)
        out.append(row)
    return out


def _execute_mn(case, ctx):
    from pgmpy.sampling import GibbsSampling

    world = case["world"]
    names = Names(world)
    ref = RefJoint.from_factors(world["card"], world["factors"])
    ctx.fault("relabel")
    ctx.fault("insertion_permute")
    ctx.sig_order("labels", [names.lab2idx[x] for x in set(names.labels)])
    ctx.probe("markov_network_gibbs")
    try:
        model = build_mn(world, names, factor_order=case["config"]["factor_order"], edge_order=case["config"]["edge_order"])
    except Exception as e:
        ctx.fail("succeeds", f"{PROP}:raise:build_mn:{type(e).__name__}:{exc_site(e)}", exc_brief(e))
        return
    for i, op in enumerate(case["ops"]):
        ctx.step_no = i
        ctx.steps += 1
        ctx.event(op["op"], op["size"], op["seed"])
        try:
            if op["op"] == "gibbs_kernel":
                g = GibbsSampling(model)
                ctx.checked += 1
                order = [names.lab2idx[x] for x in g.variables.tolist()]
                _gibbs_kernel(ctx, world, names, ref, g, order)
            elif op["op"] == "gibbs_sample":
                if any(x == 0.0 for f in world["factors"] for x in f["values"]):
                    ctx.probe("gibbs_sample_skipped")
                    continue
                size = min(op["size"], 50)
                a = GibbsSampling(model).sample(size=size, seed=op["seed"])
                seams.rng_perturb(random.Random(op["perturb"][1]), ctx)
                b = GibbsSampling(model).sample(size=size, seed=op["seed"])
                ctx.checked += 1
                if not a.equals(b):
                    ctx.fail("reproducible", f"{PROP}:not_reproducible:gibbs", {"size": size, "seed": op["seed"], "model": "mn"})
                if len(a) != size:
                    ctx.fail("row_count", f"{PROP}:row_count:gibbs", {"got": len(a), "want": size})
                else:
                    try:
                        cols_ = sorted(a.columns, key=lambda c: names.lab2idx[c])
                        ctx.xanswer("samples:gibbs_mn", [[names.lab2idx[c] for c in cols_]] + [[int(x) for x in row] for row in a[cols_].values.tolist()])
                    except (KeyError, ValueError, TypeError):
                        pass
        except Exception as e:
            ctx.fail("succeeds", f"{PROP}:raise:{op['op']}:{type(e).__name__}:{exc_site(e)}", {"exc": exc_brief(e), "model": "mn"})


def execute(case, ctx):
    from pgmpy.factors.discrete import State
    from pgmpy.sampling import BayesianModelSampling, GibbsSampling

    if case.get("kind") == "mn":
        return _execute_mn(case, ctx)
    world, config = case["world"], case["config"]
    names = Names(world)
    n = world["n"]
    card = world["card"]
    lat = list(world.get("latents", []))
    ref = RefJoint.from_bn(world)
    model = build_bn(world, config, names)
    ctx.fault("relabel")
    ctx.sig_order("labels", [names.lab2idx[x] for x in set(names.labels)])
    shared = BayesianModelSampling(model) if case["shared"] else None
    L = names.L

    def sampler():
        return shared if shared is not None else BayesianModelSampling(model)

    def expect_cols(include_latents):
        return [v for v in range(n) if include_latents or v not in lat]

    def check_frame(df, cols, size, what, fixed=None, support=True):
        """Common exact checks.  Returns the logical rows or None."""
        got_cols = [c for c in df.columns if c != "_weight"]
        if sorted(map(repr, got_cols)) != sorted(repr(L(v)) for v in cols):
            ctx.fail("columns", f"{PROP}:columns:{what}", {"got": [repr(c) for c in got_cols], "want": [repr(L(v)) for v in cols], "latents": lat})
            return None
        if len(df) != size:
            ctx.fail("row_count", f"{PROP}:row_count:{what}", {"got": len(df), "want": size})
            return None
        try:
            rows = frame_rows(df, names, cols)
        except (KeyError, ValueError, TypeError) as e:
            ctx.fail("valid_states", f"{PROP}:invalid_state:{what}", exc_brief(e))
            return None
        # a fixed seed reproduces the samples in every process: compared across workers with other hash seeds (hash-seed twin)
        ctx.xanswer("samples:" + what, [[r_[v] for v in sorted(r_)] for r_ in rows])
        if fixed:
            for r_ in rows:
                for v, s in fixed.items():
                    if v in r_ and r_[v] != s:
                        ctx.fail("evidence_respected", f"{PROP}:evidence_violated:{what}", {"var": v, "want": s, "got": r_[v]})
                        return None
        if support and len(cols) == n:
            for r_ in rows:
                for v in range(n):
                    if fixed and v in fixed:
                        continue
                    if cond_prob(world, v, r_) <= 0.0:
                        ctx.fail("support", f"{PROP}:zero_probability_state:{what}", {"var": v, "row": [r_[u] for u in range(n)], "parents": world["parents"][v]})
                        return None
        return rows

    for i, op in enumerate(case["ops"]):
        ctx.step_no = i
        ctx.steps += 1
        k = op["op"]
        ev = {int(a): int(b) for a, b in op.get("ev", {}).items() if int(a) < n and int(b) < card[int(a)]}
        if ev and ref.prob_evidence(ev) <= 0.01:
            continue
        evl = [State(L(v), names.S(v, s)) for v, s in ev.items()]
        seed = op["seed"]
        size = op["size"]
        inc = op["include_latents"]
        ctx.event(k, size, seed, inc, sorted(ev.items()))

        def twice(call):
            """Run a seeded call twice with the global RNG perturbed in between; frames must be identical."""
            np.random.seed(op["perturb"][0] % (2**31))
            a = call()
            seams.rng_perturb(random.Random(op["perturb"][1]), ctx)
            b = call()
            return a, b

        try:
            if k in ("forward", "law_forward"):
                kw = {}
                fixed = None
                if op.get("partial") and k == "forward":
                    import pandas as pd

                    cols_p = [v for v in op["partial"]["cols"] if v < n]
                    rp = random.Random(op["partial"]["seed"])
                    if cols_p:
                        data = {L(v): [rp.randrange(card[v]) for _ in range(size)] for v in cols_p}
                        # partial samples are given as state numbers (the sampler works on numbers internally)
                        # row i of the partial samples is row i of the result, whatever the frame's index labels are
                        imode = op["partial"].get("index", "default")
                        index = None
                        if imode == "shuffled":
                            index = list(range(size))
                            rp.shuffle(index)
                        elif imode == "offset":
                            index = [7 + 3 * j for j in range(size)]
                        elif imode == "labels":
                            index = ["r%d" % j for j in range(size)]
                        kw["partial_samples"] = pd.DataFrame(data, index=index)
                        fixed = {v: list(data[L(v)]) for v in cols_p}
                        ctx.probe("partial_samples")
                        if index is not None:
                            ctx.probe("partial_samples_index_" + imode)
                if k == "law_forward":
                    inc = True
                a, b = twice(lambda: sampler().forward_sample(size=size, include_latents=inc, seed=seed, show_progress=False, **kw))
                ctx.checked += 1
                if not a.equals(b):
                    ctx.fail("reproducible", f"{PROP}:not_reproducible:forward", {"size": size, "seed": seed})
                rows = check_frame(a, expect_cols(inc), size, "forward", support="partial_samples" not in kw)
                if rows is not None and fixed:
                    bad = None
                    for j, r_ in enumerate(rows):
                        for v, colv in fixed.items():
                            if v in r_ and r_[v] != colv[j]:
                                bad = bad or {"what": "supplied column not kept row by row", "var": v, "row": j, "want": colv[j], "got": r_[v]}
                        if len(r_) == n and bad is None:
                            for v in range(n):
                                if v not in fixed and cond_prob(world, v, r_) <= 0.0:
                                    bad = {"what": "sampled value impossible given its parents", "var": v, "row": [r_[u] for u in range(n)], "parents": world["parents"][v]}
                                    break
                        if bad:
                            break
                    if bad:
                        ctx.fail("partial_samples", f"{PROP}:partial_samples:forward", bad)
                if rows is not None and k == "law_forward":
                    _law(ctx, world, rows, None, "forward")
            elif k in ("rejection", "law_rejection"):
                if not ev:
                    # no evidence: the sampler takes a shortcut to forward sampling; seed and repeatability must survive it
                    a, b = twice(lambda: sampler().rejection_sample(evidence=[], size=min(size, 400), include_latents=inc, seed=seed, show_progress=False))
                    ctx.checked += 1
                    ctx.probe("rejection_without_evidence")
                    if not a.equals(b):
                        ctx.fail("reproducible", f"{PROP}:not_reproducible:rejection_without_evidence", {"size": min(size, 400), "seed": seed})
                    check_frame(a, expect_cols(inc), min(size, 400), "rejection_noev")
                    continue
                if k == "law_rejection" and op["seed"] % 2:
                    inc = True  # otherwise the law is checked on the visible columns only (evidence may sit on a hidden latent)
                ctx.fault("rare_evidence") if ref.prob_evidence(ev) < 0.1 else None
                a, b = twice(lambda: sampler().rejection_sample(evidence=evl, size=size, include_latents=inc, seed=seed, show_progress=False))
                ctx.checked += 1
                if not a.equals(b):
                    ctx.fail("reproducible", f"{PROP}:not_reproducible:rejection", {"size": size, "seed": seed})
                rows = check_frame(a, expect_cols(inc), size, "rejection", fixed=ev)
                if rows is not None and k == "law_rejection":
                    _law(ctx, world, rows, ev, "rejection", ref)
            elif k == "lw":
                a, b = twice(lambda: sampler().likelihood_weighted_sample(evidence=evl, size=size, include_latents=inc, seed=seed, show_progress=False))
                ctx.checked += 1
                if not a.equals(b):
                    ctx.fail("reproducible", f"{PROP}:not_reproducible:lw", {"size": size, "seed": seed})
                if "_weight" not in a.columns:
                    ctx.fail("columns", f"{PROP}:columns:lw", "no _weight column")
                    continue
                cols = expect_cols(inc)
                rows = check_frame(a, cols, size, "lw", fixed=ev)
                if rows is not None and len(cols) == n:
                    wts = list(a["_weight"])
                    for r_, w_ in zip(rows, wts):
                        want = 1.0
                        for v in ev:
                            want *= cond_prob(world, v, r_)
                        if not close(float(w_), want, atol=1e-12, rtol=1e-9 if not world.get("flags", {}).get("rounded_roots") else 1e-2):
                            ctx.fail("weights", f"{PROP}:lw_weight", {"row": [r_[u] for u in range(n)], "weight": float(w_), "want": want, "evidence": sorted(ev.items())})
                            break
            elif k == "gibbs_kernel":
                g = GibbsSampling(model)
                ctx.checked += 1
                order = [names.lab2idx[x] for x in g.variables.tolist()] if hasattr(g.variables, "tolist") else [names.lab2idx[x] for x in g.variables]
                _gibbs_kernel(ctx, world, names, ref, g, order)
            elif k == "gibbs_sample":
                if not isinstance(names.labels[0], str) or any(x == 0.0 for t in world["tables"] for row in t for x in row):
                    # column names are str(variable); a random start state inside a zero-probability region has no kernel
                    ctx.probe("gibbs_sample_skipped")
                    continue
                size = min(size, 50)
                g = GibbsSampling(model)
                skw = {}
                start = None
                if op["seed"] % 3 == 0:
                    # an explicit start state, the caller's list object serving both chains
                    rs = random.Random(op["perturb"][0])
                    start = [State(L(v), rs.randrange(card[v])) for v in [names.lab2idx[x] for x in g.variables.tolist()]]
                    start_before = [(repr(x.var), int(x.state)) for x in start]
                    skw["start_state"] = start
                    ctx.probe("gibbs_explicit_start_state")
                a = g.sample(size=size, seed=seed, include_latents=inc, **skw)
                seams.rng_perturb(random.Random(op["perturb"][1]), ctx)
                g2 = GibbsSampling(model)
                b = g2.sample(size=size, seed=seed, include_latents=inc, **skw)
                if start is not None:
                    if [(repr(x.var), int(x.state)) for x in start] != start_before:
                        ctx.fail("reproducible", f"{PROP}:gibbs_start_state_argument_changed", {"before": start_before, "after": [(repr(x.var), int(x.state)) for x in start]})
                    first = {c: int(a[c].iloc[0]) for c in a.columns}
                    want_first = {str(x.var): int(x.state) for x in start if str(x.var) in first}
                    if first != want_first:
                        ctx.fail("reproducible", f"{PROP}:gibbs_first_row_is_not_the_start_state", {"got": first, "want": want_first})
                ctx.checked += 1
                if not a.equals(b):
                    ctx.fail("reproducible", f"{PROP}:not_reproducible:gibbs", {"size": size, "seed": seed})
                if len(a) != size:
                    ctx.fail("row_count", f"{PROP}:row_count:gibbs", {"got": len(a), "want": size})
                else:
                    try:
                        cols_ = sorted(a.columns, key=lambda c: names.lab2idx[c])
                        ctx.xanswer("samples:gibbs", [[names.lab2idx[c] for c in cols_]] + [[int(x) for x in row] for row in a[cols_].values.tolist()])
                    except (KeyError, ValueError, TypeError):
                        pass
            elif k == "simulate_missing":
                import pandas as pd

                mcols = [v for v in (op.get("missing_cols") or []) if v < n] or None
                visible = expect_cols(inc)
                kw = {"missing_columns": [L(v) for v in mcols]} if mcols else {}

                def call():
                    return model.simulate(n_samples=size, include_latents=inc, seed=seed, show_progress=False, include_missing=True, missing_prob=op["missing_prob"], **kw)

                a, b = twice(call)
                ctx.checked += 1
                ctx.probe("simulate_with_missing_values")
                if not a.equals(b):
                    ctx.fail("reproducible", f"{PROP}:not_reproducible:simulate_missing", {"size": size, "seed": seed})
                if sorted(map(repr, a.columns)) != sorted(repr(L(v)) for v in visible) or len(a) != size:
                    ctx.fail("columns", f"{PROP}:columns:simulate_missing", {"got": [repr(c) for c in a.columns], "rows": len(a), "want_rows": size})
                    continue
                canon = []
                nmiss = 0
                bad = None
                for j in range(size):
                    row = []
                    for v in visible:
                        x = a[L(v)].iloc[j]
                        if pd.isna(x):
                            nmiss += 1
                            row.append(-1)
                            if mcols is not None and v not in mcols:
                                bad = bad or ("missing_in_wrong_column", {"var": v, "allowed": mcols})
                            continue
                        try:
                            row.append(names.state_index(v, x.item() if hasattr(x, "item") else x))
                        except (KeyError, ValueError, TypeError) as e:
                            bad = bad or ("invalid_state", {"var": v, "value": repr(x)})
                            row.append(-2)
                    if len(visible) == n and all(x >= 0 for x in row):
                        r_ = dict(zip(visible, row))
                        for v in range(n):
                            if cond_prob(world, v, r_) <= 0.0:
                                bad = bad or ("zero_probability_state", {"var": v, "row": row})
                    canon.append(row)
                if bad:
                    ctx.fail("valid_states", f"{PROP}:{bad[0]}:simulate_missing", bad[1])
                    continue
                cells = size * (len(mcols) if mcols is not None else len(visible)) if mcols is None else size * len([v for v in mcols if v in visible])
                if cells >= 400:
                    eps = hoeffding(cells)
                    if abs(nmiss / cells - op["missing_prob"]) > eps:
                        ctx.fail("law", f"{PROP}:law:missing_rate", {"rate": nmiss / cells, "want": op["missing_prob"], "cells": cells, "eps": eps})
                ctx.xanswer("samples:simulate_missing", canon)
            elif k == "law_simulate":
                do = {int(a_): int(b_) for a_, b_ in op.get("do", {}).items() if int(a_) < n and int(b_) < card[int(a_)]}
                if not do or any(v in do for v in ev):
                    continue
                wd = do_world(world, do)
                refd = RefJoint.from_bn(wd)
                if ev and refd.prob_evidence(ev) <= 0.05:
                    continue
                a = model.simulate(n_samples=size, do={L(v): names.S(v, s) for v, s in do.items()}, evidence={L(v): names.S(v, s) for v, s in ev.items()},
                                   include_latents=True, seed=seed, show_progress=False)
                ctx.checked += 1
                fixed = dict(ev)
                fixed.update(do)
                rows = check_frame(a, expect_cols(True), size, "simulate_do", fixed=fixed, support=False)
                if rows is not None:
                    ctx.probe("simulate_law_under_do")
                    _law(ctx, wd, rows, ev if ev else None, "simulate_do", refd)
            elif k == "simulate":
                do = {int(a_): int(b_) for a_, b_ in op.get("do", {}).items() if int(a_) < n and int(b_) < card[int(a_)]}
                virt = [(int(v), list(l)) for v, l in op.get("virt", []) if int(v) < n and len(l) == card[int(v)]]
                if any(v in do for v in ev) or any(v in do or v in ev for v, _ in virt):
                    continue
                from . import c01

                kw = {}
                if virt:
                    if ref.prob_evidence(ev, virt) <= 0.01:
                        continue
                    kw["virtual_evidence"] = c01.make_virtual(world, names, virt)
                    ctx.fault("virtual_evidence_rebind")

                def call():
                    return model.simulate(n_samples=size, do={L(v): names.S(v, s) for v, s in do.items()}, evidence={L(v): names.S(v, s) for v, s in ev.items()},
                                          include_latents=inc, seed=seed, show_progress=False, **kw)

                a, b = twice(call)
                ctx.checked += 1
                if not a.equals(b):
                    ctx.fail("reproducible", f"{PROP}:not_reproducible:simulate", {"size": size, "seed": seed})
                fixed = dict(ev)
                fixed.update(do)
                df = a[[c for c in a.columns if not str(c).startswith("__")]] if virt else a
                rows = check_frame(df, expect_cols(inc), size, "simulate", fixed=fixed, support=not do)
                if rows is not None and do and len(expect_cols(inc)) == n:
                    # under do(X=x) every other variable still follows its own CPD given the sampled parents
                    for r_ in rows:
                        for v in range(n):
                            if v in do:
                                continue
                            if cond_prob(world, v, r_) <= 0.0:
                                ctx.fail("support", f"{PROP}:zero_probability_state:simulate_do", {"var": v, "row": [r_[u] for u in range(n)]})
                                break
                        else:
                            continue
                        break
        except Exception as e:
            ctx.fail("succeeds", f"{PROP}:raise:{k}:{type(e).__name__}:{exc_site(e)}", {"exc": exc_brief(e), "labels": world["labels"][:3], "latents": lat, "inc": inc})


def _law(ctx, world, rows, ev, what, ref=None):
    """Hoeffding check of every family cell with enough mass (forward) / of every posterior marginal cell (rejection)."""
    n = world["n"]
    card = world["card"]
    tested = 0
    if ev is None:
        for v in range(n):
            ps = world["parents"][v]
            groups = {}
            for r_ in rows:
                groups.setdefault(tuple(r_[p] for p in ps), []).append(r_[v])
            for cfg, vals in groups.items():
                m = len(vals)
                if m < 200:
                    continue
                col = 0
                for p, s in zip(ps, cfg):
                    col = col * card[p] + s
                eps = hoeffding(m)
                for s in range(card[v]):
                    p_hat = sum(1 for x in vals if x == s) / m
                    p = world["tables"][v][s][col]
                    tested += 1
                    if abs(p_hat - p) > eps:
                        ctx.fail("law", f"{PROP}:law:{what}", {"var": v, "parents": ps, "config": list(cfg), "state": s, "p_hat": p_hat, "p": p, "m": m, "eps": eps})
                        return
    else:
        m = len(rows)
        eps = hoeffding(m)
        for v in range(n):
            if v in ev or (rows and v not in rows[0]):
                continue
            post = ref.posterior([v], ev)
            for s in range(card[v]):
                p_hat = sum(1 for r_ in rows if r_[v] == s) / m
                tested += 1
                if abs(p_hat - float(post[s])) > eps:
                    ctx.fail("law", f"{PROP}:law:{what}", {"var": v, "state": s, "p_hat": p_hat, "p": float(post[s]), "m": m, "eps": eps, "evidence": sorted(ev.items())})
                    return
    ctx.probe("law_cells_tested", tested)


def _gibbs_kernel(ctx, world, names, ref, g, order):
    n = world["n"]
    card = world["card"]
    for v in range(n):
        others = [u for u in order if u != v]
        kern = g.transition_models.get(names.L(v))
        if kern is None:
            ctx.fail("kernel", f"{PROP}:gibbs_kernel_missing", {"var": v})
            return
        for tup, dist in kern.items():
            cfg = dict(zip(others, tup))
            m = ref.marginal_unnorm([v], cfg)
            z = m.sum()
            if z <= 1e-300:
                continue  # the full conditional is undefined for a configuration of probability zero
            want = m / z
            got = to_np(dist)
            if got.shape != want.shape or not close(got, want, atol=1e-9, rtol=1e-7):
                # state names that are integers can collide with state numbers in DiscreteFactor.reduce
                collide = any(world["states"][u] is not None and all(isinstance(s, int) for s in world["states"][u]) and world["states"][u] != list(range(card[u]))
                              for u in range(n))
                ctx.fail("kernel", f"{PROP}:gibbs_kernel" + (":int_state_names" if collide else ""), {"var": v, "config": [cfg[u] for u in others], "got": np.asarray(got).round(6).tolist(),
                                                                                                      "want": want.round(6).tolist()})
                return


def shrink_candidates(case):
    from . import c01

    w = case["world"]
    if case.get("kind") == "mn":
        if any(st is not None for st in w["states"]):
            c = copy.deepcopy(case)
            c["world"]["states"] = [None] * w["n"]
            yield c
        for i in range(len(w["factors"])):
            # dropping a factor keeps the model valid as long as every variable is still covered
            rest = [f for j, f in enumerate(w["factors"]) if j != i]
            if all(any(v in f["scope"] for f in rest) for v in range(w["n"])):
                c = copy.deepcopy(case)
                c["world"]["factors"] = rest
                c["config"]["factor_order"] = list(range(len(rest)))
                yield c
        return
    if case["shared"]:
        out = copy.deepcopy(case)
        out["shared"] = False
        yield out
    if w.get("latents"):
        out = copy.deepcopy(case)
        out["world"]["latents"] = []
        yield out
    for c in c01.shrink_candidates({"world": w, "config": case["config"], "ops": []}):
        if c["world"]["parents"] != w["parents"] or any(t != t2 for t, t2 in zip(c["world"]["tables"], w["tables"])):
            continue  # evidence probabilities were drawn against this distribution
        out = copy.deepcopy(case)
        out["world"], out["config"] = c["world"], c["config"]
        out["world"]["latents"] = w.get("latents", [])
        yield out
    for i, op in enumerate(case["ops"]):
        if op["size"] > 1 and not op["op"].startswith("law"):
            out = copy.deepcopy(case)
            out["ops"][i]["size"] = max(1, op["size"] // 2)
            yield out
        for key in ("partial", "virt", "do"):
            if op.get(key):
                out = copy.deepcopy(case)
                out["ops"][i][key] = {} if key == "do" else ([] if key == "virt" else None)
                yield out
