"""Parent process: derives seeds, runs the worker pool, confirms failures by fresh-process replay,
applies known findings, writes evidence, sets the exit code.  Never imports pgmpy.

exit codes: 0 held on everything explored (KNOWN-FINDING lines allowed) | 1 VIOLATION |
            2 harness error / timeout of the harness | 3 failure that did not reproduce on replay"""
import json
import os
import shutil
import subprocess
import sys
import time

from . import core, findings
from .prng import derive

VERIF = os.path.dirname(os.path.dirname(os.path.abspath(__file__)))
PY = "/venv/bin/python"
WORKER_MAIN = os.path.join(VERIF, "pgmsim_worker.py")

DEFAULT_BUDGET = {
    "quick": {"procs": 32, "runs": 20, "wall": 900},
    "thorough": {"procs": 192, "runs": 120, "wall": 14400},
}


def ncpu():
    try:
        return max(1, min(16, len(os.sched_getaffinity(0))))
    except Exception:
        return max(1, min(16, os.cpu_count() or 1))


def worker_env(hashseed):
    env = dict(os.environ)
    env["PYTHONHASHSEED"] = str(hashseed)
    env["PYTHONDONTWRITEBYTECODE"] = "1"
    env["OMP_NUM_THREADS"] = "1"
    env["MKL_NUM_THREADS"] = "1"
    env["OPENBLAS_NUM_THREADS"] = "1"
    env["TQDM_DISABLE"] = "1"
    env.pop("PYTHONPATH", None)
    return env


def spawn(job, hashseed, workdir, name):
    jf = os.path.join(workdir, name + ".job.json")
    job = dict(job)
    job["out"] = os.path.join(workdir, name + ".out.jsonl")
    with open(jf, "w") as fh:
        json.dump(job, fh)
    log = open(os.path.join(workdir, name + ".log"), "w")
    p = subprocess.Popen([PY, "-X", "faulthandler", "-W", "ignore", WORKER_MAIN, jf], env=worker_env(hashseed),
                         stdout=log, stderr=subprocess.STDOUT, cwd=VERIF)
    return p, job["out"], log


def read_jsonl(path):
    out = []
    if not os.path.exists(path):
        return out
    with open(path) as fh:
        for line in fh:
            line = line.strip()
            if not line:
                continue
            try:
                out.append(json.loads(line))
            except Exception:
                out.append({"type": "garbled", "line": line[:200]})
    return out


def run_pool(jobs, workdir, wall, parallel=None):
    """jobs: list of (name, hashseed, job).  Returns {name: records}, set of names that did not finish."""
    parallel = parallel or ncpu()
    pending = list(jobs)
    running = {}
    done = {}
    bad = {}
    t_end = time.monotonic() + wall
    while pending or running:
        while pending and len(running) < parallel:
            name, hs, job = pending.pop(0)
            p, outp, log = spawn(job, hs, workdir, name)
            running[name] = (p, outp, log, time.monotonic())
        time.sleep(0.05)
        for name in list(running):
            p, outp, log, t0 = running[name]
            rc = p.poll()
            if rc is not None:
                log.close()
                recs = read_jsonl(outp)
                done[name] = recs
                if rc != 0 or not any(r.get("type") in ("bye", "replay") for r in recs):
                    bad[name] = f"worker exit {rc}"
                del running[name]
        if time.monotonic() > t_end:
            for name, (p, outp, log, t0) in running.items():
                p.kill()
                bad[name] = "wall cap"
                done[name] = read_jsonl(outp)
            for name, hs, job in pending:
                bad[name] = "not started (wall cap)"
            break
    return done, bad


def replay_file(path, workdir, events=False, timeout=600):
    with open(path) as fh:
        rp = json.load(fh)
    name = "replay-" + os.path.basename(path).replace(".json", "")
    job = {"mode": "replay", "prop": rp["property"], "tier": rp.get("tier", "quick"), "replay": rp, "events": events}
    if rp.get("mode") == "xtwin":
        # the same case in two fresh interpreters with the two recorded hash seeds; the failure is a differing answer digest
        jobs = [(name + "-a", rp["hashseed"], job), (name + "-b", rp["hashseed_b"], dict(job))]
        done, bad = run_pool(jobs, workdir, timeout, parallel=2)
        res = []
        for nm, _, _ in jobs:
            rr = [r for r in done.get(nm, []) if r.get("type") == "replay"]
            if not rr or rr[0].get("harness_error"):
                return rp, {"type": "replay", "harness_error": "xtwin replay worker failed: %s %s" % (bad.get(nm), (rr[0].get("harness_error") if rr else ""))}
            res.append(rr[0])
        a, b = res
        da, db = (a["summary"].get("xdig") or {}).get(rp["xkey"]), (b["summary"].get("xdig") or {}).get(rp["xkey"])
        out = {"type": "replay", "summary": dict(a["summary"]), "events": a.get("events"), "xtwin": {"a": da, "b": db}}
        out["summary"]["failures"] = list(a["summary"].get("failures", []))
        if da != db:
            out["summary"]["failures"].append({"clause": "hash_seed_independent", "sig": rp["sig"], "step": -1,
                                               "detail": {"answer": rp["xkey"], "hashseed_a": rp["hashseed"], "digest_a": da, "hashseed_b": rp["hashseed_b"], "digest_b": db}})
        return rp, out
    done, bad = run_pool([(name, rp["hashseed"], job)], workdir, timeout, parallel=1)
    recs = done.get(name, [])
    for r in recs:
        if r.get("type") == "replay":
            return rp, r
    return rp, {"type": "replay", "harness_error": "replay worker produced nothing: %s" % bad.get(name)}


def check(prop, tier, seed, opts):
    t0 = time.monotonic()
    sc_budget = dict(DEFAULT_BUDGET[tier])
    try:
        # budgets live in a tiny pgmpy-free table so that the parent does not import scenarios
        from .budgets import BUDGETS

        sc_budget.update(BUDGETS.get(prop, {}).get(tier, {}))
    except ImportError:
        pass
    if opts.get("procs"):
        sc_budget["procs"] = int(opts["procs"])
    if opts.get("runs"):
        sc_budget["runs"] = int(opts["runs"])
    procs, runs, wall = sc_budget["procs"], sc_budget["runs"], sc_budget["wall"]
    workdir = os.path.join(VERIF, ".work", f"{prop}-{tier}-{os.getpid()}")
    shutil.rmtree(workdir, ignore_errors=True)
    os.makedirs(workdir, exist_ok=True)
    replay_dir = os.path.join(VERIF, "replays", prop)
    os.makedirs(replay_dir, exist_ok=True)
    ev_dir = "evidence" if os.environ.get("PGMSIM_REPO", "/repo") == "/repo" else os.path.join(".work", "evidence-scratch")
    ev_path = os.path.join(VERIF, ev_dir, f"{prop}.json")
    os.makedirs(os.path.dirname(ev_path), exist_ok=True)

    jobs = []
    hashseeds = []
    n_common = int(sc_budget.get("common", 0)) if procs >= 2 else 0
    common_dir = os.path.join(workdir, "common")
    os.makedirs(common_dir, exist_ok=True)
    for w in range(procs):
        hs = derive(seed, prop, "hash", w) % (2**32)
        hashseeds.append(hs)
        items = [{"idx": w * runs + i, "runseed": derive(seed, prop, "run", w, i) % (2**53)} for i in range(runs)]
        # hash-seed twin: a few run seeds common to ALL workers; their hash-independent answers (ctx.xanswer) are compared below
        items = [{"idx": -1 - i, "runseed": derive(seed, prop, "common", i) % (2**53), "common": True} for i in range(n_common)] + items
        job = {"mode": "explore", "prop": prop, "tier": tier, "runs": items, "replay_dir": replay_dir, "common_dir": common_dir,
               "shrink": not opts.get("noshrink"), "run_timeout": sc_budget.get("run_timeout", 120),
               "shrink_budget": sc_budget.get("shrink_budget", 40)}
        jobs.append((f"w{w:04d}", hs, job))
    print(f"[pgmsim] {prop} {tier}: VERIF_SEED={seed} procs={procs} runs/proc={runs} cpus={ncpu()} repo={os.environ.get('PGMSIM_REPO', '/repo')}", flush=True)
    done, bad = run_pool(jobs, workdir, wall)

    runs_rec = []
    harness = []
    for name in sorted(done):
        for r in done[name]:
            if r.get("type") == "run":
                r["_worker"] = name
                runs_rec.append(r)
                if r.get("harness_error"):
                    harness.append((name, r["runseed"], r["harness_error"]))
            elif r.get("type") == "garbled":
                harness.append((name, None, "garbled worker output: " + r["line"]))
    for name, why in sorted(bad.items()):
        tail = ""
        lp = os.path.join(workdir, name + ".log")
        if os.path.exists(lp):
            with open(lp, errors="replace") as fh:
                tail = fh.read()[-1500:]
        harness.append((name, None, f"{why}\n{tail}"))

    # ---- aggregate -----------------------------------------------------------------------------
    from collections import Counter

    faults = Counter()
    probes = Counter()
    digests = set()
    nontrivial = set()
    orders = set()
    steps = 0
    checked = 0
    samples = []
    known_seen = Counter()
    unknown = {}
    timeouts = 0
    for r in runs_rec:
        if r.get("harness_error"):
            continue
        for k, v in (r.get("faults") or {}).items():
            faults[k] += v
        for k, v in (r.get("probes") or {}).items():
            probes[k] += v
        steps += r.get("steps", 0)
        checked += r.get("checked", 0)
        if r.get("digest"):
            digests.add(r["digest"])
            if r.get("checked", 0) > 0:
                nontrivial.add(r["digest"])
        if r.get("order"):
            orders.add(r["order"])
        if r.get("sample") is not None and len(samples) < 3:
            samples.append(r["sample"])
        if r.get("timeout"):
            timeouts += 1
        for f in r.get("failures", []):
            if f.get("known"):
                known_seen[f["sig"]] += 1
        for rp in r.get("replays", []):
            unknown.setdefault(rp["sig"], []).append(rp)

    # ---- hash-seed twin: answers of the common runs must agree across worker processes ------------------------
    xcompared = 0
    xpending = {}
    byseed = {}
    for r in runs_rec:
        if r.get("common") and not r.get("harness_error") and not r.get("timeout"):
            byseed.setdefault(r["runseed"], []).append(r)
    hs_of = {name: hs for name, hs, _ in jobs}
    for runseed, recs in sorted(byseed.items()):
        keys = sorted({k for r in recs for k in (r.get("xdig") or {})})
        for k in keys:
            groups = {}
            for r in recs:
                d = (r.get("xdig") or {}).get(k)
                groups.setdefault(d, []).append(hs_of[r["_worker"]])
            xcompared += 1
            if len(groups) > 1:
                sig = f"{prop}:hash_seed_dependent:{k.split('#')[0]}"
                if sig in xpending:
                    continue
                order = sorted(groups.items(), key=lambda kv: (-len(kv[1]), str(kv[0])))
                cpath = os.path.join(common_dir, f"{runseed}.case.json")
                if not os.path.exists(cpath):
                    continue
                with open(cpath) as fh:
                    case = json.load(fh)
                h1, h2 = order[0][1][0], order[1][1][0]
                import hashlib as _hl

                path = os.path.join(replay_dir, f"{h1}-{runseed}-x{_hl.sha256(sig.encode()).hexdigest()[:7]}.json")
                detail = {"answer": k, "hashseeds_by_digest": {str(d): sorted(v)[:6] for d, v in order}, "processes_compared": len(recs)}
                with open(path, "w") as fh:
                    json.dump({"property": prop, "clause": "hash_seed_independent", "sig": sig, "detail": detail, "mode": "xtwin",
                               "hashseed": str(h1), "hashseed_b": str(h2), "xkey": k, "runseed": runseed, "tier": tier, "case": case}, fh, indent=1)
                xpending[sig] = {"sig": sig, "clause": "hash_seed_independent", "path": path, "detail": detail}
    kf_x = findings.open_sigs(prop)
    for sig, rp in sorted(xpending.items()):
        if sig in kf_x:
            known_seen[sig] += 1
        else:
            unknown.setdefault(sig, []).append(rp)
    probes["hash_seed_twin_answers_compared"] += xcompared

    # ---- known findings ------------------------------------------------------------------------
    kf = findings.open_sigs(prop)
    for sig in sorted(known_seen):
        print(f"KNOWN-FINDING: property={prop} {kf[sig]['what']} [sig={sig} seen={known_seen[sig]}]", flush=True)

    # ---- confirm unknown failures in a fresh interpreter ------------------------------------------
    violations = []
    nonrepro = []
    for sig in sorted(unknown)[:8]:
        cands = sorted(unknown[sig], key=lambda rp: os.path.getsize(rp["path"]) if os.path.exists(rp["path"]) else 1 << 60)
        confirmed = None
        for rp in cands[:2]:
            meta, res = replay_file(rp["path"], workdir)
            if res.get("harness_error"):
                harness.append(("replay", None, res["harness_error"]))
                continue
            fs = (res.get("summary") or {}).get("failures", [])
            if any(f["sig"] == sig for f in fs):
                confirmed = rp
                break
            # the minimised case passes in a fresh interpreter: minimisation may have been misled by state the worker process had
            # accumulated (see worker.py); try the case as generated, on its own, in a fresh interpreter
            try:
                with open(rp["path"]) as fh:
                    full = json.load(fh)
            except Exception:
                full = {}
            if full.get("original_case") is not None:
                opath = rp["path"].replace(".json", ".asgenerated.json")
                full2 = dict(full, case=full["original_case"], original_case=None, shrink_tests=0, minimised_case_ops=full.get("original_case_ops"),
                             note="minimised case did not reproduce in a fresh interpreter (process-history dependent failure); this is the case as generated")
                with open(opath, "w") as fh:
                    json.dump(full2, fh, indent=1)
                meta2, res2 = replay_file(opath, workdir)
                fs2 = (res2.get("summary") or {}).get("failures", []) if not res2.get("harness_error") else []
                if any(f["sig"] == sig for f in fs2):
                    confirmed = dict(rp, path=opath)
                    break
        if confirmed:
            violations.append(confirmed)
        else:
            nonrepro.append(cands[0])
    more_unknown = sorted(unknown)[8:]

    wall_s = time.monotonic() - t0
    n_eval = len([r for r in runs_rec if not r.get("harness_error")])
    meta = core_meta(prop)
    evidence = {
        "property_id": prop,
        "tier": tier,
        "seed": int(seed),
        "level": "exploration",
        "coverage": {
            "evaluations": n_eval,
            "distinct_nontrivial": len(nontrivial),
            "rule": meta.get("rule", ""),
            "samples": samples or [{"note": "no run completed"}],
            "simulated_steps": steps,
            "checked_steps": checked,
            "distinct_trace_digests": len(digests),
            "distinct_order_signatures": len(orders),
            "hashseeds": len(set(hashseeds)),
            "worker_processes": procs,
            "runs_per_hour": round(n_eval / wall_s * 3600) if wall_s > 0 else 0,
            "steps_per_hour": round(steps / wall_s * 3600) if wall_s > 0 else 0,
            "simulated_time": "not applicable: the anchored code reads no clock and sets no timer; progress is counted in logical steps",
            "fault_counts_fired": dict(sorted(faults.items())),
            "reach_probes": dict(sorted(probes.items())),
            "probes_stuck_at_zero": [p for p in meta.get("expected_probes", []) if probes.get(p, 0) == 0],
            "components": meta.get("components", {}),
            "known_findings_seen": dict(sorted(known_seen.items())),
            "timeouts": timeouts,
            "explanation": meta.get("explanation", ""),
        },
        "assumptions": meta.get("assumptions", []),
        "wall_s": round(wall_s, 2),
        "violations": len(violations) + len(more_unknown),
    }
    with open(ev_path, "w") as fh:
        json.dump(evidence, fh, indent=1, sort_keys=True)

    rc = 0
    for rp in violations:
        print(f"VIOLATION property={prop} replay={rp['path']}", flush=True)
        print(f"  clause={rp['clause']} sig={rp['sig']}\n  detail={str(rp['detail'])[:600]}", flush=True)
        rc = 1
    for sig in more_unknown:
        rp = unknown[sig][0]
        print(f"VIOLATION property={prop} replay={rp['path']}", flush=True)
        print(f"  (unconfirmed: more than 8 distinct signatures) sig={sig}", flush=True)
        rc = 1
    if harness:
        print(f"[pgmsim] HARNESS ERRORS: {len(harness)}", flush=True)
        for name, rs, txt in harness[:3]:
            print(f"--- {name} runseed={rs}\n{txt[-2500:]}", flush=True)
        if rc == 0:
            rc = 2
    if nonrepro and rc == 0:
        for rp in nonrepro:
            print(f"[pgmsim] NON-REPRODUCIBLE failure sig={rp['sig']} replay={rp['path']}", flush=True)
        rc = 3
    print(f"[pgmsim] {prop} {tier}: runs={n_eval} distinct_nontrivial={len(nontrivial)} steps={steps} "
          f"orders={len(orders)} faults={sum(faults.values())} known={sum(known_seen.values())} "
          f"violations={len(violations)} wall={wall_s:.1f}s rc={rc}", flush=True)
    if rc == 0 and not opts.get("keep"):
        shutil.rmtree(workdir, ignore_errors=True)
    return rc


def core_meta(prop):
    try:
        from .budgets import META

        return META.get(prop, {})
    except ImportError:
        return {}


def cmd_replay(path, opts):
    workdir = os.path.join(VERIF, ".work", f"replay-{os.getpid()}")
    os.makedirs(workdir, exist_ok=True)
    rp, res = replay_file(path, workdir, events=bool(opts.get("events")))
    shutil.rmtree(workdir, ignore_errors=True)
    prop = rp["property"]
    if res.get("harness_error"):
        print(res["harness_error"])
        return 2
    fs = (res.get("summary") or {}).get("failures", [])
    kf = findings.open_sigs(prop)
    print(f"[pgmsim] replay {path}: hashseed={rp['hashseed']} digest={res['summary'].get('digest')} failures={len(fs)}")
    if opts.get("events") and res.get("events"):
        for e in res["events"]:
            print("  ", json.dumps(e, default=str)[:400])
    rc = 0
    for f in fs:
        if f["sig"] in kf:
            print(f"KNOWN-FINDING: property={prop} {kf[f['sig']]['what']} [sig={f['sig']}]")
        else:
            print(f"VIOLATION property={prop} replay={path}")
            print(f"  clause={f['clause']} sig={f['sig']}\n  detail={str(f['detail'])[:1500]}")
            rc = 1
    if not any(f["sig"] == rp["sig"] for f in fs):
        print(f"[pgmsim] recorded signature {rp['sig']} did NOT reproduce")
    return rc


def cmd_setup():
    code = ("import sys; sys.path.insert(0, '/repo'); import numpy, pandas, networkx, joblib, torch, pyparsing, opt_einsum;"
            "import cloudpickle; import pgmpy, pgmpy.models, pgmpy.inference, pgmpy.estimators, pgmpy.sampling, pgmpy.readwrite;"
            "print('pgmsim setup ok: pgmpy', pgmpy.__version__, 'from', pgmpy.__file__)")
    r = subprocess.run([PY, "-W", "ignore", "-c", code], env=worker_env(0))
    return r.returncode


def parse_opts(args):
    opts = {}
    rest = []
    for a in args:
        if a.startswith("--"):
            k, _, v = a[2:].partition("=")
            opts[k] = v if v else True
        else:
            rest.append(a)
    return rest, opts


def main(argv):
    rest, opts = parse_opts(argv)
    if not rest:
        print("usage: vcheck setup | <Cxx> quick|thorough [--procs=N --runs=N --keep --noshrink] | replay <file> [--events] | selftest-determinism [props]")
        return 2
    seed = int(os.environ.get("VERIF_SEED", "1") or "1")
    cmd = rest[0]
    if cmd == "setup":
        return cmd_setup()
    if cmd == "replay":
        return cmd_replay(rest[1], opts)
    if cmd == "selftest-determinism":
        from . import selftest

        return selftest.determinism(rest[1:] or core.CLAIMED, seed, opts)
    if cmd.upper() in core.CLAIMED:
        tier = rest[1] if len(rest) > 1 else os.environ.get("VERIF_TIER", "quick")
        if tier not in ("quick", "thorough"):
            print("tier must be quick or thorough")
            return 2
        return check(cmd.upper(), tier, seed, opts)
    print(f"unknown command {cmd!r}")
    return 2
