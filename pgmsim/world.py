"""Logical worlds: JSON-serialisable descriptions of models over logical variables 0..n-1.

A world never contains pgmpy objects.  Labels and state names are JSON values: str, int or list
(a list stands for a tuple).  Tables are nested lists of floats (repr round-trips exactly).
"""
import itertools
import math

from .prng import shuffled, subset, weighted

KEYWORDS = ["variable", "probability", "network", "table", "default", "property", "type", "discrete"]


# --------------------------------------------------------------------------------------------------
# labels
# --------------------------------------------------------------------------------------------------
def dec(x):
    """JSON value -> Python label (lists become tuples, recursively)."""
    if isinstance(x, list):
        return tuple(dec(y) for y in x)
    return x


def enc(x):
    if isinstance(x, tuple):
        return [enc(y) for y in x]
    if hasattr(x, "item") and not isinstance(x, (str, bytes)):
        try:
            return x.item()
        except Exception:
            return x
    return x


_ALPHA = "abcdefghijklmnopqrstuvwxyzABCDEFGHIJKLMNOPQRSTUVWXYZ"
_ALNUM = _ALPHA + "0123456789_"


def gen_ident(r, maxlen=6):
    n = r.randint(1, maxlen)
    return r.choice(_ALPHA) + "".join(r.choice(_ALNUM) for _ in range(n - 1))


def gen_labels(r, n, mode=None, keyword_rate=0.0):
    """n distinct labels of one type."""
    if mode is None:
        mode = weighted(r, [("str", 5), ("short", 2), ("prefix", 1), ("int", 2), ("spread", 1), ("tuple", 1)])
    out = []
    seen = set()

    def push(x):
        k = repr(x)
        if k in seen:
            return False
        seen.add(k)
        out.append(x)
        return True

    tries = 0
    while len(out) < n:
        tries += 1
        if tries > 10000:
            raise RuntimeError("label generation stuck")
        if mode == "str":
            s = gen_ident(r)
            if keyword_rate and r.random() < keyword_rate:
                kw = r.choice(KEYWORDS)
                s = r.choice([kw + s, s + kw, s + "_" + kw + "_" + gen_ident(r, 2)])
            push(s)
        elif mode == "short":
            push(r.choice(_ALPHA[26:]))
        elif mode == "prefix":
            base = "x"
            push(base + str(r.choice([1, 2, 10, 11, 12, 100, 101, 21, 3, 30])))
        elif mode == "int":
            push(r.randrange(0, max(n, 2) + 2))
        elif mode == "spread":
            # mixed digit counts and signs: numeric order and the order of the printed names differ (2 < 10 but "10" < "2")
            push(r.choice([r.randrange(-50, 10), r.randrange(10, 100), r.randrange(100, 2000), r.randrange(-50, 10**6)]))
        elif mode == "tuple":
            push([r.choice(["a", "b", "c"]), r.randrange(0, 6)])
        else:
            raise ValueError(mode)
    return out, mode


def gen_states(r, card, mode, allow_negative=False):
    """State names for one variable.  None = leave pgmpy's default (0..card-1)."""
    if mode == "default":
        return None
    if card > 5:
        # generated names for large cardinalities
        if mode in ("str", "mixed"):
            return ["s%d" % i for i in r.sample(range(card * 2), card)]
        if mode in ("int", "int_sorted"):
            xs = r.sample(range(card * 3), card)
            return sorted(xs) if mode == "int_sorted" else xs
        return None
    if mode == "str":
        pool = ["yes", "no", "low", "mid", "high", "s0", "s1", "s2", "s3", "on", "off", "a", "b", "c", "d", "T", "F"]
        return r.sample(pool, card)
    if mode == "int":
        if card >= 2 and r.random() < 0.3:
            # a non-identity permutation of 0..card-1: every name is also a state number, of another state
            xs = list(range(card))
            while xs == list(range(card)):
                r.shuffle(xs)
            return xs
        return r.sample([0, 1, 2, 3, 5, 7, 10, 20, 30, 100] + ([-1] if allow_negative else []), card)
    if mode == "int_sorted":
        return sorted(r.sample(range(0, 12), card))
    if mode == "mixed":
        # str() of the states of one variable stay distinct (file formats and column names print them)
        pool = ["yes", "no", "x", "y", 0, 1, 2, 3, 10, "s0", "s1"]
        return r.sample(pool, card)
    if mode == "odd":
        # legal but unusual names: None, the empty string, a float, a negative number, a tuple (falsy values and
        # "is None" / dict.get shortcuts are classic slips); str() of the states of one variable stay distinct
        pool = [None, "", 0.5, -1, "yes", ["a", 0], 7]
        return r.sample(pool, card)
    if mode == "tuple":
        pool = [["a", 0], ["a", 1], ["b", 0], ["b", 1], ["c", 2]]
        return r.sample(pool, card)
    raise ValueError(mode)


# --------------------------------------------------------------------------------------------------
# tables
# --------------------------------------------------------------------------------------------------
def gen_column(r, card, zero_rate=0.0, onehot_rate=0.0, tiny_rate=0.0):
    if card == 1:
        return [1.0]
    if r.random() < onehot_rate:
        k = r.randrange(card)
        return [1.0 if i == k else 0.0 for i in range(card)]
    if r.random() < tiny_rate:
        # several magnitudes; column sums to one exactly enough (|err| < 1e-15)
        # mantissas with and without a fractional part (3e-10, 2.5e-10): number formats treat them differently
        small = [float("%se-%d" % (r.choice([r.randint(1, 9), r.randint(11, 99) / 10.0]), r.randint(6, 12))) for _ in range(card - 1)]
        rest = 1.0 - math.fsum(small)
        col = small + [rest]
        r.shuffle(col)
        return col
    w = [r.randint(1, 20) for _ in range(card)]
    for i in range(card):
        if r.random() < zero_rate:
            w[i] = 0
    if sum(w) == 0:
        w[r.randrange(card)] = 1
    s = float(sum(w))
    return [x / s for x in w]


def gen_table(r, card, pcards, **kw):
    ncols = 1
    for c in pcards:
        ncols *= c
    cols = [gen_column(r, card, **kw) for _ in range(ncols)]
    return [[cols[j][i] for j in range(ncols)] for i in range(card)]


# --------------------------------------------------------------------------------------------------
# Bayesian-network worlds
# --------------------------------------------------------------------------------------------------
def gen_bn(streams, max_n=6, min_n=1, max_card=4, max_parents=3, max_joint=4096, label_mode=None,
           state_modes=None, connected=False, allow_card1=True, keyword_rate=0.0, tiny_rate=None,
           max_table=None, force_str_labels=False, positive=False, big_card_rate=0.0):
    r = streams.s("world")
    n = r.randint(min_n, max_n)
    density = r.choice([0.15, 0.3, 0.5, 0.8])
    card1_rate = r.choice([0.0, 0.0, 0.1, 0.3]) if allow_card1 else 0.0
    zero_rate = r.choice([0.0, 0.0, 0.15, 0.4])
    onehot_rate = r.choice([0.0, 0.0, 0.1, 0.5])
    if tiny_rate is None:
        tiny_rate = 0.0
    if positive:
        zero_rate = onehot_rate = 0.0
    motif = weighted(r, [("random", 6), ("chain", 1), ("collider", 1), ("isolated", 1), ("two_parts", 1), ("star", 2)])
    dup_rate = r.choice([0.0, 0.0, 0.0, 0.6, 0.9])
    same_card = dup_rate > 0 and r.random() < 0.6

    card = []
    c0 = r.randint(2, max_card)
    for _ in range(n):
        if r.random() < card1_rate:
            card.append(1)
        elif same_card:
            card.append(c0)
        else:
            card.append(r.randint(2, max_card))
    if big_card_rate and r.random() < big_card_rate:
        # a two-digit cardinality next to one-digit ones (formats that sort or print cardinalities as text)
        card[r.randrange(n)] = r.choice([10, 11, 12])
    # keep the joint small
    while _prod(card) > max_joint:
        i = max(range(n), key=lambda k: card[k])
        card[i] -= 1

    order = shuffled(r, range(n))  # topological order of logical variables
    parents = [[] for _ in range(n)]
    pos = {v: i for i, v in enumerate(order)}
    if motif == "chain":
        for a, b in zip(order, order[1:]):
            parents[b].append(a)
    elif motif == "collider" and n >= 3:
        sink = order[-1]
        k = min(max_parents, n - 1)
        for a in order[-1 - k:-1]:
            parents[sink].append(a)
        for v in order[:-1 - k]:
            parents[order[-2]].append(v) if len(parents[order[-2]]) < max_parents and r.random() < 0.5 else None
    elif motif == "star" and n >= 2:
        hub = order[0]
        for v in order[1:]:
            parents[v].append(hub)
    else:
        for v in order:
            cands = [u for u in order[:pos[v]]]
            ps = subset(r, cands, density)
            r.shuffle(ps)
            parents[v] = ps[:max_parents]
        if motif == "isolated" and n >= 2:
            iso = r.choice(order)
            parents[iso] = []
            for v in range(n):
                parents[v] = [p for p in parents[v] if p != iso]
        if motif == "two_parts" and n >= 4:
            half = set(order[: n // 2])
            for v in range(n):
                parents[v] = [p for p in parents[v] if (p in half) == (v in half)]
    if connected:
        _connect(r, n, parents, order, max_parents)
    for v in range(n):
        parents[v] = shuffled(r, parents[v])  # declared evidence order
        if max_table is not None:
            while parents[v] and card[v] * _prod(card[p] for p in parents[v]) > max_table:
                parents[v].pop()
    if connected:
        _connect(r, n, parents, order, max_parents + 1)

    tables = []
    for v in range(n):
        t = None
        if dup_rate and r.random() < dup_rate:
            # value-identical CPDs (identical sensors, a likelihood equal to a prior, ...)
            same = [u for u in range(v) if card[u] == card[v] and [card[p] for p in parents[u]] == [card[p] for p in parents[v]]]
            if same:
                t = [list(row) for row in tables[r.choice(same)]]
        if t is None:
            t = gen_table(r, card[v], [card[p] for p in parents[v]], zero_rate=zero_rate,
                          onehot_rate=onehot_rate, tiny_rate=tiny_rate)
        tables.append(t)

    rl = streams.s("labels")
    if force_str_labels == "or_int":
        # data-frame based code: column names are strings or integers (what pandas gives a frame built from a matrix)
        label_mode = label_mode if label_mode in ("str", "short", "prefix", "int", "spread") else weighted(rl, [("str", 5), ("short", 2), ("prefix", 1), ("int", 2), ("spread", 1)])
    elif force_str_labels:
        label_mode = label_mode if label_mode in ("str", "short", "prefix") else weighted(rl, [("str", 5), ("short", 2), ("prefix", 1)])
    if label_mode in ("short",) and n > 20:
        label_mode = "str"
    labels, label_mode = gen_labels(rl, n, label_mode, keyword_rate=keyword_rate)
    if state_modes is None:
        state_modes = [("default", 3), ("str", 3), ("int", 2), ("mixed", 1), ("int_sorted", 1), ("odd", 1)]
    smode = weighted(rl, state_modes + [("per_var", 2)])
    states = []
    for v in range(n):
        m = smode if smode != "per_var" else weighted(rl, state_modes)
        states.append(gen_states(rl, card[v], m))
    return {
        "kind": "bn", "n": n, "card": card, "parents": parents, "tables": tables,
        "labels": labels, "states": states, "latents": [],
        "flags": {"motif": motif, "density": density, "zero_rate": zero_rate, "onehot_rate": onehot_rate,
                  "label_mode": label_mode, "state_mode": smode, "dup_rate": dup_rate},
    }


def _prod(xs):
    p = 1
    for x in xs:
        p *= x
    return p


def _connect(r, n, parents, order, max_parents):
    """Make the underlying undirected graph connected by adding edges along the topological order."""
    pos = {v: i for i, v in enumerate(order)}
    comp = list(range(n))

    def find(a):
        while comp[a] != a:
            comp[a] = comp[comp[a]]
            a = comp[a]
        return a

    for v in range(n):
        for p in parents[v]:
            comp[find(v)] = find(p)
    for v in order[1:]:
        if find(v) != find(order[0]) or True:
            # join v's component to some earlier node of a different component
            others = [u for u in order[:pos[v]] if find(u) != find(v)]
            if others and len(parents[v]) < max_parents:
                u = r.choice(others)
                parents[v].append(u)
                comp[find(v)] = find(u)
    # last resort: chain components through roots (may exceed max_parents by one)
    roots = sorted({find(v) for v in range(n)})
    while len(roots) > 1:
        a_nodes = [v for v in range(n) if find(v) == roots[0]]
        b_nodes = [v for v in range(n) if find(v) == roots[1]]
        a = r.choice(a_nodes)
        b = r.choice(b_nodes)
        if pos[a] < pos[b]:
            parents[b].append(a)
        else:
            parents[a].append(b)
        comp[find(a)] = find(b)
        roots = sorted({find(v) for v in range(n)})


def bn_edges(world):
    return [(p, v) for v in range(world["n"]) for p in world["parents"][v]]


def gen_bn_config(streams, world):
    """Insertion orders used when the real object is built."""
    r = streams.s("insertion")
    n = world["n"]
    return {
        "node_order": shuffled(r, range(n)),
        "edge_order": shuffled(r, bn_edges(world)),
        "cpd_order": shuffled(r, range(n)),
        "nodes_first": r.random() < 0.5,
        "ctor_edges": r.random() < 0.3,
    }


def is_connected_bn(world):
    n = world["n"]
    adj = {v: set() for v in range(n)}
    for p, v in bn_edges(world):
        adj[p].add(v)
        adj[v].add(p)
    # moral edges do not change connectivity
    seen = {0}
    stack = [0]
    while stack:
        a = stack.pop()
        for b in sorted(adj[a]):
            if b not in seen:
                seen.add(b)
                stack.append(b)
    return len(seen) == n


def topo_order(world):
    n = world["n"]
    done = []
    placed = set()
    while len(done) < n:
        for v in range(n):
            if v not in placed and all(p in placed for p in world["parents"][v]):
                done.append(v)
                placed.add(v)
                break
        else:
            raise ValueError("cycle in world")
    return done


def ancestors(world, vs):
    out = set()
    stack = list(vs)
    while stack:
        v = stack.pop()
        for p in world["parents"][v]:
            if p not in out:
                out.add(p)
                stack.append(p)
    return out


def descendants(world, vs):
    n = world["n"]
    ch = {v: [] for v in range(n)}
    for p, v in bn_edges(world):
        ch[p].append(v)
    out = set()
    stack = list(vs)
    while stack:
        v = stack.pop()
        for c in ch[v]:
            if c not in out:
                out.add(c)
                stack.append(c)
    return out


# --------------------------------------------------------------------------------------------------
# Markov-network worlds (factors over logical variables)
# --------------------------------------------------------------------------------------------------
def gen_mn(streams, max_n=6, min_n=2, max_card=3, max_joint=4096, connected=True, dup_rate=0.0,
           label_mode=None, state_named=None, big_card_rate=0.0, scale_rate=0.0, hub_rate=0.0, ring_rate=0.3, coupling=None):
    r = streams.s("world")
    n = r.randint(min_n, max_n)
    hub = hub_rate > 0 and max_n >= 6 and r.random() < hub_rate
    if hub:
        n = r.randint(6, max(6, min(9, max_n + 2)))
    ring = not hub and n >= 5 and r.random() < ring_rate
    card = [r.randint(1 if r.random() < 0.08 and not hub else 2, max_card if not (ring or hub) else 2) for _ in range(n)]
    if big_card_rate and r.random() < big_card_rate:
        card[r.randrange(n)] = r.choice([10, 11, 12])
    while _prod(card) > max_joint:
        i = max(range(n), key=lambda k: card[k])
        card[i] -= 1
    density = r.choice([0.2, 0.4, 0.7])
    edges = []
    order = shuffled(r, range(n))
    if hub:
        # a hub clique with several satellite cliques hanging off it (>= 4 maximal cliques that all meet the hub):
        # the clique tree has many candidate edges of equal weight and only some spanning trees have the running-intersection property
        hs = r.randint(2, 3)
        hubv = order[:hs]
        for a, b in itertools.combinations(hubv, 2):
            edges.append((a, b))
        for s_ in order[hs:]:
            att = r.sample(hubv, r.randint(1, min(2, hs)))
            for h in att:
                edges.append((h, s_))
            if r.random() < 0.2:
                o = r.choice(order[hs:])
                if o != s_ and (o, s_) not in edges and (s_, o) not in edges:
                    edges.append((s_, o))
    elif ring and not connected and n >= 6 and r.random() < 0.6:
        # a chordless cycle on part of the nodes, the rest isolated nodes or separate edges: a disconnected graph with fewer
        # edges than nodes that still needs fill-in
        m = r.randint(4, n - 2)
        for i in range(m):
            edges.append((order[i], order[(i + 1) % m]))
        rest = order[m:]
        for a, b in zip(rest[::2], rest[1::2]):
            if r.random() < 0.5:
                edges.append((a, b))
    elif ring:
        # a long chordless cycle (plus at most one chord): triangulation has to cascade fill-in edges
        for i in range(n):
            edges.append((order[i], order[(i + 1) % n]))
        if r.random() < 0.3:
            a, b = order[0], order[n // 2]
            if (a, b) not in edges and (b, a) not in edges:
                edges.append((a, b))
    else:
        if connected:
            for i in range(1, n):
                edges.append((order[r.randrange(i)], order[i]))
        for a, b in itertools.combinations(range(n), 2):
            if r.random() < density and (a, b) not in edges and (b, a) not in edges:
                edges.append((a, b))
    zero_rate = r.choice([0.0, 0.0, 0.1])
    strong = coupling == "strong" and r.random() < 0.5
    factors = []

    def rand_factor(scope):
        size = _prod(card[v] for v in scope)
        vals = []
        for _ in range(size):
            if r.random() < zero_rate:
                vals.append(0.0)
            elif coupling == "strong" and strong:
                # strongly coupled potentials: a few large entries, the rest small
                vals.append(r.choice([0.05, 0.1, 0.2, 5.0, 8.0, 12.0]))
            else:
                vals.append(r.randint(1, 12) / 4.0)
        if all(x == 0.0 for x in vals):
            vals[r.randrange(size)] = 1.0
        return {"scope": list(scope), "values": vals}

    style = weighted(r, [("edges", 4), ("cliques", 2), ("mixed", 3)])
    covered = set()
    if style in ("cliques", "mixed"):
        # factors over triangles found in the edge list
        es = {frozenset(e) for e in edges}
        for a, b, c in itertools.combinations(range(n), 3):
            if {frozenset((a, b)), frozenset((b, c)), frozenset((a, c))} <= es and r.random() < 0.6:
                sc = shuffled(r, [a, b, c])
                factors.append(rand_factor(sc))
                covered |= {frozenset((a, b)), frozenset((b, c)), frozenset((a, c))}
    for a, b in edges:
        if frozenset((a, b)) in covered and r.random() < 0.7:
            continue
        factors.append(rand_factor(shuffled(r, [a, b])))
    for v in range(n):
        if r.random() < 0.3 or not any(v in f["scope"] for f in factors):
            factors.append(rand_factor([v]))
    # a second, different factor over an already used scope (e.g. a prior and a soft-evidence factor on one variable)
    if r.random() < 0.3 and factors:
        for f in r.sample(factors, min(len(factors), r.randint(1, 2))):
            g = rand_factor(shuffled(r, f["scope"]))
            if sorted(g["values"]) != sorted(f["values"]):
                factors.append(g)
    # repeated equal factors
    if dup_rate:
        for f in list(factors):
            if r.random() < dup_rate:
                g = {"scope": list(f["scope"]), "values": list(f["values"])}
                factors.append(g)
    if not dup_rate:
        # no two value-equal factors unless asked for (a FactorGraph cannot hold two equal factor nodes)
        seen, uniq = set(), []
        for f in factors:
            order = sorted(range(len(f["scope"])), key=lambda i_: f["scope"][i_])
            key = (tuple(sorted(f["scope"])), tuple(f["values"]) if order == list(range(len(order))) else None, len(f["values"]))
            if len(f["scope"]) == 1:
                key = (tuple(f["scope"]), tuple(f["values"]))
                if key in seen:
                    continue
                seen.add(key)
            uniq.append(f)
        factors = uniq
    factors = shuffled(r, factors)
    if scale_rate and r.random() < scale_rate:
        # potentials are only defined up to a constant: whole-model or per-factor scales far from 1
        mode = r.choice(["all", "all", "each"])
        sc = r.choice([1e-3, 1e-4, 1e-6, 1e3, 1e5])
        for f in factors:
            k = sc if mode == "all" else r.choice([1e-4, 1e-2, 1.0, 1e2, 1e-6])
            f["values"] = [x * k for x in f["values"]]
    rl = streams.s("labels")
    labels, label_mode = gen_labels(rl, n, label_mode)
    if state_named is None:
        state_named = rl.random() < 0.5
    states = []
    smode = weighted(rl, [("str", 2), ("int", 1), ("mixed", 1)])
    for v in range(n):
        states.append(gen_states(rl, card[v], smode) if state_named else None)
    return {"kind": "mn", "n": n, "card": card, "edges": [list(e) for e in edges], "factors": factors,
            "labels": labels, "states": states,
            "flags": {"style": style, "density": density, "label_mode": label_mode, "state_named": state_named, "ring": ring}}


def mn_connected(world):
    n = world["n"]
    adj = {v: set() for v in range(n)}
    for a, b in world["edges"]:
        adj[a].add(b)
        adj[b].add(a)
    seen = {0}
    stack = [0]
    while stack:
        a = stack.pop()
        for b in sorted(adj[a]):
            if b not in seen:
                seen.add(b)
                stack.append(b)
    return len(seen) == n


# --------------------------------------------------------------------------------------------------
# data sets drawn from a BN world by the simulator's own PRNG (ancestral sampling over logical states)
# --------------------------------------------------------------------------------------------------
def gen_rows(r, world, nrows, sharpen=False):
    n = world["n"]
    order = topo_order(world)
    card = world["card"]
    rows = []
    for _ in range(nrows):
        x = [0] * n
        for v in order:
            col = 0
            for p in world["parents"][v]:
                col = col * card[p] + x[p]
            probs = [world["tables"][v][s][col] for s in range(card[v])]
            if sharpen:
                # strong dependencies: peaked conditionals (structure search then makes long climbs with moves that are undone later)
                probs = [pr ** 4 for pr in probs]
                tot = sum(probs) or 1.0
                probs = [pr / tot for pr in probs]
            u = r.random()
            acc = 0.0
            k = card[v] - 1
            for s, pr in enumerate(probs):
                acc += pr
                if u < acc:
                    k = s
                    break
            x[v] = k
        rows.append(x)
    return rows


def round_roots(world, rr):
    """Tables as people type them: root distributions rounded down to 3 decimals (accepted by check_model, the column sums to
    slightly less than one) with an impossible last state.  Marks world["flags"]["rounded_roots"]."""
    import math

    n = world["n"]
    for v in range(n):
        if not world["parents"][v] and world["card"][v] >= 2:
            col = [row[0] for row in world["tables"][v]]
            col[-1] = 0.0
            tot = sum(col)
            if tot <= 0:
                continue
            col = [math.floor(x / tot * 1000) / 1000.0 for x in col]
            d = 1.0 - sum(col)
            if d > 0.0009:
                # the samplers accept a deficit of at most 1e-3
                col[0] = round(col[0] + (d - 0.0009), 6)
            if not (0.0 < 1.0 - sum(col) <= 0.00095):
                continue
            world["tables"][v] = [[x] for x in col]
    world["flags"]["rounded_roots"] = True
