"""Named PRNG sub-streams derived from one integer.

Every choice of a simulated run (world, labels, insertion orders, options, workload, faults, worker
batching, RNG perturbation) is drawn from `Streams(runseed).s(name)`.  Sub-streams are independent
Mersenne twisters seeded from SHA-256(runseed, name), so that removing one operation during
minimisation does not shift the choices made for the others.  Nothing here hashes Python strings with
the builtin hash(), reads a clock or iterates a set, so the *logical* run is independent of
PYTHONHASHSEED; hash order enters only through the real pgmpy code.
"""
import hashlib
import random


def derive(*parts):
    h = hashlib.sha256("|".join(str(p) for p in parts).encode()).digest()
    return int.from_bytes(h[:8], "big")


class Streams:
    def __init__(self, seed):
        self.seed = int(seed)
        self._streams = {}

    def s(self, name):
        r = self._streams.get(name)
        if r is None:
            r = random.Random(derive(self.seed, name))
            self._streams[name] = r
        return r

    def child(self, name):
        return Streams(derive(self.seed, "child", name))


def weighted(r, pairs):
    """pairs: list of (item, weight)."""
    tot = sum(w for _, w in pairs)
    x = r.random() * tot
    acc = 0.0
    for item, w in pairs:
        acc += w
        if x < acc:
            return item
    return pairs[-1][0]


def subset(r, items, p):
    return [x for x in items if r.random() < p]


def shuffled(r, items):
    items = list(items)
    r.shuffle(items)
    return items
