"""The seams the simulator owns (DESIGN.md section 1): joblib executor, file system, global numpy RNG,
process-global pgmpy configuration.  Everything installed here is removed by reset_environment()."""
import builtins
import errno
import io
import importlib
import os
import sys

_REAL_OPEN = builtins.open
_PATCHED = []  # (module, attr, original)

PARALLEL_MODULES = [
    "pgmpy.readwrite.BIF",
    "pgmpy.models.BayesianNetwork",
    "pgmpy.estimators.PC",
    "pgmpy.estimators.EM",
    "pgmpy.estimators.MLE",
    "pgmpy.estimators.TreeSearch",
    "pgmpy.estimators.BayesianEstimator",
]


def reset_environment():
    """Back to the reference environment: numpy backend, no progress bars, real open, real joblib names,
    fixed global RNG state."""
    import numpy as np

    while _PATCHED:
        mod, attr, orig = _PATCHED.pop()
        setattr(mod, attr, orig)
    builtins.open = _REAL_OPEN
    io.open = _REAL_IO_OPEN
    from pgmpy import config

    if config.BACKEND != "numpy":
        config.set_backend("numpy")
    config.DTYPE = "float64"
    from . import refmodel

    refmodel.set_single(False)
    refmodel.set_torch_rounding(False)
    config.set_show_progress(False)
    np.random.seed(20240229)


def _patch(modname, attr, value):
    mod = importlib.import_module(modname)
    _PATCHED.append((mod, attr, getattr(mod, attr)))
    setattr(mod, attr, value)


# --------------------------------------------------------------------------------------------------
# S3: joblib executor
# --------------------------------------------------------------------------------------------------
class SimParallelFactory:
    """Stands in for joblib.Parallel inside pgmpy modules.

    Legal schedules only: tasks are consumed from the generator in submission order, partitioned into
    contiguous batches, batches are *executed* in a PRNG-chosen order, each batch either on the caller's
    objects (what n_jobs=1 / a single-CPU box does) or on a pickle round-trip copy of (func, args, kwargs)
    with results pickled back (what a loky worker sees); results are always returned in submission order."""

    def __init__(self, rng, ctx, force_mode=None):
        self.rng = rng
        self.ctx = ctx
        self.force_mode = force_mode
        self.calls = 0

    def __call__(self, n_jobs=None, **kwargs):
        return _SimParallelCall(self, n_jobs, kwargs)


class _SimParallelCall:
    def __init__(self, factory, n_jobs, kwargs):
        self.f = factory
        self.n_jobs = n_jobs
        self.kwargs = kwargs

    def __call__(self, iterable):
        import cloudpickle as cp
        import pickle

        f = self.f
        rng = f.rng
        ctx = f.ctx
        f.calls += 1
        tasks = list(iterable)
        ctx.sims["parallel_calls"] += 1
        ctx.sims["parallel_tasks"] += len(tasks)
        if not tasks:
            return []
        n_jobs = self.n_jobs
        threads = self.kwargs.get("prefer") == "threads" or self.kwargs.get("backend") == "threading"
        if n_jobs == 1 or n_jobs is None:
            mode = "inline"
        elif f.force_mode:
            mode = f.force_mode
        else:
            mode = "isolated" if rng.random() < 0.75 else "inline"
        if threads and mode == "isolated":
            mode = "shared_batches"
        if mode == "inline":
            return [fn(*a, **k) for fn, a, k in tasks]
        # contiguous batches
        n = len(tasks)
        cuts = sorted(set(rng.sample(range(1, n), min(n - 1, rng.randint(0, min(n - 1, 4)))))) if n > 1 else []
        bounds = [0] + cuts + [n]
        batches = [(bounds[i], bounds[i + 1]) for i in range(len(bounds) - 1)]
        order = list(range(len(batches)))
        rng.shuffle(order)
        if len(batches) > 1:
            ctx.fault("worker_batching")
        if order != sorted(order):
            ctx.fault("worker_reorder")
        results = [None] * n
        for bi in order:
            lo, hi = batches[bi]
            chunk = tasks[lo:hi]
            if mode == "isolated":
                ctx.fault("worker_isolation")
                chunk = pickle.loads(cp.dumps(chunk))
                out = [fn(*a, **k) for fn, a, k in chunk]
                out = pickle.loads(cp.dumps(out))
            else:
                out = [fn(*a, **k) for fn, a, k in chunk]
            results[lo:hi] = out
        return results


def install_parallel(rng, ctx, force_mode=None):
    fac = SimParallelFactory(rng, ctx, force_mode)
    for m in PARALLEL_MODULES:
        _patch(m, "Parallel", fac)
    return fac


# --------------------------------------------------------------------------------------------------
# S4: file system
# --------------------------------------------------------------------------------------------------
_REAL_IO_OPEN = io.open
SIMFS_PREFIX = "/simfs/"


class SimFS:
    """In-memory files under /simfs/.  A write becomes durable (visible to later opens) at close().
    Faults: plan = {'open': k, 'write': k, 'close': k, 'read': k} -> the k-th such call (0-based, counted
    over the life of this SimFS since arm()) raises OSError."""

    def __init__(self, ctx):
        self.ctx = ctx
        self.files = {}
        self.plan = {}
        self.counts = {"open": 0, "write": 0, "close": 0, "read": 0}
        self.fired = []
        self.err = errno.ENOSPC

    def arm(self, plan, err=errno.ENOSPC):
        self.plan = dict(plan or {})
        self.counts = {"open": 0, "write": 0, "close": 0, "read": 0}
        self.fired = []
        self.err = err

    def disarm(self):
        self.plan = {}

    def _tick(self, kind):
        k = self.counts[kind]
        self.counts[kind] = k + 1
        if self.plan.get(kind) == k:
            self.fired.append(kind)
            self.ctx.fault("io_%s_error" % kind)
            raise OSError(self.err, os.strerror(self.err))

    def open(self, path, mode="r", *args, **kwargs):
        self._tick("open")
        binary = "b" in mode
        if "r" in mode and "+" not in mode:
            if path not in self.files:
                raise FileNotFoundError(errno.ENOENT, os.strerror(errno.ENOENT), path)
            data = self.files[path]
            if binary:
                data = data.encode() if isinstance(data, str) else data
                return _SimReadB(self, data)
            data = data.decode() if isinstance(data, bytes) else data
            return _SimReadT(self, data)
        if "w" in mode or "a" in mode or "x" in mode:
            init = self.files.get(path, "") if "a" in mode else ""
            # O_TRUNC takes effect at open
            if "w" in mode:
                self.files[path] = b"" if binary else ""
            return _SimWrite(self, path, binary, init)
        raise ValueError("SimFS: unsupported mode %r" % mode)


class _SimReadT(io.StringIO):
    def __init__(self, fs, data):
        super().__init__(data)
        self._fs = fs

    def read(self, *a):
        self._fs._tick("read")
        return super().read(*a)

    def readline(self, *a):
        self._fs._tick("read")
        return super().readline(*a)

    def readlines(self, *a):
        self._fs._tick("read")
        return super().readlines(*a)

    def __iter__(self):
        self._fs._tick("read")
        return super().__iter__()


class _SimReadB(io.BytesIO):
    def __init__(self, fs, data):
        super().__init__(data)
        self._fs = fs

    def read(self, *a):
        self._fs._tick("read")
        return super().read(*a)


class _SimWrite:
    def __init__(self, fs, path, binary, init):
        self._fs = fs
        self._path = path
        self._binary = binary
        self._buf = [init] if init else []
        self.closed = False

    def write(self, data):
        if self.closed:
            raise ValueError("I/O operation on closed file.")
        self._fs._tick("write")
        self._buf.append(data)
        # the part written so far reaches the file (no torn writes: a write completes or raises)
        self._commit()
        return len(data)

    def writelines(self, lines):
        for ln in lines:
            self.write(ln)

    def _commit(self):
        joiner = b"" if self._binary else ""
        self._fs.files[self._path] = joiner.join(self._buf)

    def flush(self):
        pass

    def close(self):
        if self.closed:
            return
        self.closed = True
        self._fs._tick("close")

    def __enter__(self):
        return self

    def __exit__(self, et, ev, tb):
        self.close()
        return False

    def writable(self):
        return True

    def readable(self):
        return False

    def seekable(self):
        return False


def install_simfs(ctx):
    fs = SimFS(ctx)

    def sim_open(file, mode="r", *args, **kwargs):
        if isinstance(file, (str, os.PathLike)) and os.fspath(file).startswith(SIMFS_PREFIX):
            return fs.open(os.fspath(file), mode, *args, **kwargs)
        return _REAL_OPEN(file, mode, *args, **kwargs)

    builtins.open = sim_open
    io.open = sim_open
    return fs


# --------------------------------------------------------------------------------------------------
# S2: global numpy RNG
# --------------------------------------------------------------------------------------------------
def rng_perturb(rng, ctx):
    """Consume / reseed the process-global numpy RNG the way unrelated user code would."""
    import numpy as np

    k = rng.randrange(3)
    if k == 0:
        np.random.seed(rng.randrange(2**31))
    elif k == 1:
        np.random.random(rng.randint(1, 50))
    else:
        np.random.randint(0, 10, size=rng.randint(1, 20))
    ctx.fault("rng_perturb")


def set_backend(name):
    """'numpy' | 'torch' | 'numpy:float32' | 'torch:float32' (run configuration: numeric backend x dtype)."""
    from pgmpy import config

    from . import refmodel

    backend, _, dtype = name.partition(":")
    refmodel.set_single(dtype == "float32")
    if backend == "torch":
        import torch

        config.set_backend("torch", device="cpu", dtype=getattr(torch, dtype) if dtype else None)
    else:
        config.set_backend("numpy", dtype=dtype or None)


BACKENDS = ["numpy", "numpy", "numpy", "numpy", "torch", "torch", "numpy:float32", "torch:float32"]


def effective_backend(name, factors):
    """factors: one list of values per factor / CPD of the model.
    float32 only for models whose positive entries lie within [1e-3, 1e3] (single precision cannot represent products of
    many tiny potentials); otherwise the same backend in double precision.  torch in double precision still builds every
    factor through a float32 tensor (known finding C01:...float32): models whose full product could leave the float32 range
    (about 1e-38 .. 3e38; clique potentials are such products) run under numpy instead."""
    import math

    flat = [abs(x) for f in factors for x in f if x]
    if name.endswith(":float32") and flat and (min(flat) < 1e-3 or max(flat) > 1e3):
        name = name.split(":")[0]
    if name.startswith("torch") and flat:
        hi = sum(math.log10(max(abs(x) for x in f if x)) for f in factors if any(f))
        lo = sum(math.log10(min(abs(x) for x in f if x)) for f in factors if any(f))
        if hi > 30 or lo < -30:
            return "numpy"
    return name
